module verif

go 1.24
