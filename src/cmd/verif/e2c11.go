package main

import (
	"fmt"
	"go/ast"
	"go/parser"
	"go/token"
	"go/types"
	"path/filepath"
	"strings"
	"sync"
)

func init() {
	checks["C11"] = checkC11
}

type c11call struct {
	plugin  string // Equal | Compare
	suffix  string // "", "A", "B"
	typ     int    // 1..3
	curried bool   // one-argument form: deriveEqual(a)(b), a different argument type list under the same name
}

func (c c11call) name() string { return "derive" + c.plugin + c.suffix }

// lit is the composite literal of the call's argument type: T1..T3 are local,
// 4 and 5 are the same-named type T of two imported packages both named model.
func (c c11call) lit() string {
	switch c.typ {
	case 4:
		return "&amodel.T{}"
	case 5:
		return "&bmodel.T{}"
	case 6:
		return "&Box[int]{}"
	case 7:
		return "&Box[string]{}"
	}
	return fmt.Sprintf("&T%d{}", c.typ)
}

func (c c11call) src() string { return c.srcLate(false) }

// srcLate: with late, the first argument is itself a derive call (Clone), so the
// call can only be registered in a second pass.
func (c c11call) srcLate(late bool) string {
	if late && (c.plugin == "Equal" || c.plugin == "Compare") {
		if c.curried {
			return fmt.Sprintf("_ = %s(deriveCloneL%d(%s))(%s)", c.name(), c.typ, c.lit(), c.lit())
		}
		return fmt.Sprintf("_ = %s(deriveCloneL%d(%s), %s)", c.name(), c.typ, c.lit(), c.lit())
	}
	if c.curried {
		return fmt.Sprintf("_ = %s(%s)(%s)", c.name(), c.lit(), c.lit())
	}
	switch c.plugin {
	case "Clone":
		return fmt.Sprintf("_ = %s(&T%d{})", c.name(), c.typ)
	case "DeepCopy":
		return fmt.Sprintf("%s(&T%d{}, &T%d{})", c.name(), c.typ, c.typ)
	}
	return fmt.Sprintf("_ = %s(%s, %s)", c.name(), c.lit(), c.lit())
}

// srcIn renders the call; with inner it is the argument of another derive call
// (Hash of its bool / int result), which is only typeable in a second pass.
func (c c11call) srcIn(late, inner bool) string {
	s := c.srcLate(late)
	if !inner || (c.plugin != "Equal" && c.plugin != "Compare") || c.curried {
		return s
	}
	of := "Bool"
	if c.plugin == "Compare" {
		of = "Int"
	}
	return "_ = deriveHashOf" + of + "(" + strings.TrimPrefix(s, "_ = ") + ")"
}

func (c c11call) String() string {
	if c.curried {
		return fmt.Sprintf("%s(*T%d)(*T%d)", c.name(), c.typ, c.typ)
	}
	return fmt.Sprintf("%s(*T%d)", c.name(), c.typ)
}

type c11pkg struct {
	calls     []c11call
	twoFiles  bool
	userFn    bool
	userVar   bool // the user's callables are package-level variables of function type, not func declarations
	lateUse   bool // the user functions are called only from the last file (two-file layout)
	pregen    bool // derived.gen.go already holds the output for the first call alone (an earlier run)
	late      bool // every call after the first takes a derive call as its first argument: clashes only show in a second pass
	splitLast bool // two files: only the last call is in the second file (default: only the first call is in the first)
	inner     bool // every call after the first is itself the argument of another derive call (renamed in pass 1, the outer call typed in pass 2)
}

func (p c11pkg) label() string {
	var ss []string
	for _, c := range p.calls {
		ss = append(ss, c.String())
	}
	l := strings.Join(ss, ", ")
	if p.twoFiles {
		l += " [two files]"
	}
	if p.splitLast {
		l += " [only the last call in the second file]"
	}
	if p.userFn && !p.userVar {
		l += " [user funcs deriveEqual_/deriveCompare_ called]"
	}
	if p.userFn && p.userVar {
		l += " [user variables of function type deriveEqual_/deriveCompare_ called]"
	}
	if p.lateUse {
		l += " [those user funcs are defined and called only in the last file; all derive calls are in the first]"
	}
	if p.pregen {
		l += " [after an earlier run on the first call alone]"
	}
	if p.late {
		l += " [calls after the first take deriveClone(...) as first argument: registered in a second pass]"
	}
	if p.inner {
		l += " [calls after the first are arguments of deriveHashOfBool/Int(...)]"
	}
	return l
}

func (p c11pkg) userDecls() string {
	if p.userVar {
		return "var deriveEqual_ = func(x int) int { return x }\nvar deriveCompare_ = func(x int) int { return x }\nvar deriveDeepCopy_ = func(x int) int { return x }\n\nvar _ = deriveEqual_(1) + deriveCompare_(2) + deriveDeepCopy_(3)\n\n"
	}
	return "func deriveEqual_(x int) int { return x }\nfunc deriveCompare_(x int) int { return x }\nfunc deriveDeepCopy_(x int) int { return x }\n\nvar _ = deriveEqual_(1) + deriveCompare_(2) + deriveDeepCopy_(3)\n\n"
}

func (p c11pkg) usesModel() bool {
	for _, c := range p.calls {
		if c.typ == 4 || c.typ == 5 {
			return true
		}
	}
	return false
}

const c11ModelImports = "import (\n\tamodel \"example.com/m/a/model\"\n\tbmodel \"example.com/m/b/model\"\n)\n\nvar _, _ = amodel.T{}, bmodel.T{}\n\n"

func (p c11pkg) files() pkgFiles {
	fs := p.files0()
	if p.usesModel() {
		for n, src := range fs {
			fs[n] = strings.Replace(src, "package m\n\n", "package m\n\n"+c11ModelImports, 1)
		}
		fs["a/model/model.go"] = "package model\n\ntype T struct{ A int }\n"
		fs["b/model/model.go"] = "package model\n\ntype T struct{ A int }\n"
	}
	return fs
}

func (p c11pkg) files0() pkgFiles {
	var a, b strings.Builder
	a.WriteString("package m\n\ntype T1 struct{ A int }\ntype T2 struct{ B int }\ntype T3 struct{ C int }\n\n")
	for _, c := range p.calls {
		if c.typ >= 6 {
			// two instantiations of one generic type are two argument types
			a.WriteString("type Box[T any] struct{ V T }\n\n")
			break
		}
	}
	if p.userFn && !p.lateUse {
		a.WriteString(p.userDecls())
	}

	split := len(p.calls)
	if p.twoFiles {
		split = 1
	}
	if p.twoFiles && p.splitLast {
		split = len(p.calls) - 1
	}
	if p.lateUse {
		split = len(p.calls) // every derive call in the first file, the user functions' only use in the last
	}
	a.WriteString("func useA() {\n")
	for i, c := range p.calls[:split] {
		a.WriteString("\t" + c.srcIn(p.late && i > 0, p.inner && i > 0) + "\n")
	}
	a.WriteString("}\n")
	fs := pkgFiles{"a.go": a.String()}
	if p.twoFiles {
		b.WriteString("package m\n\n")
		if p.userFn && p.lateUse {
			b.WriteString(p.userDecls())
		}
		b.WriteString("func useB() {\n")
		for _, c := range p.calls[split:] {
			b.WriteString("\t" + c.srcIn(p.late, p.inner) + "\n")
		}
		b.WriteString("}\n")
		fs["b.go"] = b.String()
	}
	return fs
}

// clashes computes the independent predicate.
func (p c11pkg) clashes() (conflict, duplicate bool) {
	byName := map[string]map[int]bool{}
	byPT := map[string]map[string]bool{}
	for _, c := range p.calls {
		if byName[c.name()] == nil {
			byName[c.name()] = map[int]bool{}
		}
		tl := c.typ // the argument type list: (T, T) or, curried, (T)
		if c.curried {
			tl += 100
		}
		byName[c.name()][tl] = true
		k := fmt.Sprintf("%s/%d", c.plugin, tl)
		if byPT[k] == nil {
			byPT[k] = map[string]bool{}
		}
		byPT[k][c.name()] = true
	}
	for _, ts := range byName {
		if len(ts) > 1 {
			conflict = true
		}
	}
	for _, ns := range byPT {
		if len(ns) > 1 {
			duplicate = true
		}
	}
	return
}

var (
	c11LocalOnce sync.Once
	c11Local     map[string]*types.Package
)

// c11LocalPkgs are the two packages named model of the scenario module, type-checked once.
func c11LocalPkgs() map[string]*types.Package {
	c11LocalOnce.Do(func() {
		c11Local = map[string]*types.Package{}
		for _, path := range []string{"example.com/m/a/model", "example.com/m/b/model"} {
			fset := token.NewFileSet()
			f, err := parser.ParseFile(fset, "model.go", "package model\n\ntype T struct{ A int }\n", 0)
			if err != nil {
				fatalInfra("c11 local package: %v", err)
			}
			pkg, err := (&types.Config{}).Check(path, fset, []*ast.File{f}, nil)
			if err != nil {
				fatalInfra("c11 local package: %v", err)
			}
			c11Local[path] = pkg
		}
	})
	return c11Local
}

func checkC11(tier string) {
	rep := newReporter("C11", tier)
	kmax := 3
	if tier == "thorough" {
		kmax = 4
	}
	var alphabet []c11call
	for _, pl := range []string{"Equal", "Compare"} {
		for _, sf := range []string{"", "A", "B"} {
			for t := 1; t <= 3; t++ {
				alphabet = append(alphabet, c11call{pl, sf, t, false})
			}
		}
	}
	alphabet = append(alphabet, c11call{"Equal", "", 1, true}, c11call{"Equal", "A", 1, true})
	// second alphabet: Clone requests its DeepCopy helper on its own; the user's DeepCopy names must not collide with it
	var alphabet2 []c11call
	for t := 1; t <= 2; t++ {
		alphabet2 = append(alphabet2, c11call{"Clone", "", t, false})
		for _, sf := range []string{"", "A"} {
			alphabet2 = append(alphabet2, c11call{"DeepCopy", sf, t, false})
		}
	}
	// third alphabet: the same-named type T of two imported packages named model
	var alphabet3 []c11call
	for _, t := range []int{4, 5} {
		for _, sf := range []string{"", "A"} {
			alphabet3 = append(alphabet3, c11call{"Equal", sf, t, false})
		}
	}
	// fourth alphabet: two instantiations of one generic struct
	var alphabet4 []c11call
	for _, t := range []int{6, 7} {
		for _, sf := range []string{"", "A"} {
			alphabet4 = append(alphabet4, c11call{"Equal", sf, t, false})
		}
	}
	var pkgs []c11pkg
	var gen func(cur []c11call)
	gen = func(cur []c11call) {
		if len(cur) > 0 {
			for _, two := range []bool{false, true} {
				if two && len(cur) < 2 {
					continue
				}
				if len(cur) >= 2 && (len(cur) == 2 || (tier == "thorough" && len(cur) == 3)) && cur[0].plugin != "Clone" && cur[0].plugin != "DeepCopy" {
					pkgs = append(pkgs, c11pkg{calls: append([]c11call(nil), cur...), twoFiles: two, late: true})
					pkgs = append(pkgs, c11pkg{calls: append([]c11call(nil), cur...), twoFiles: two, inner: true})
				}
				if two && len(cur) >= 3 {
					pkgs = append(pkgs, c11pkg{calls: append([]c11call(nil), cur...), twoFiles: true, splitLast: true})
				}
				for _, uf := range []int{0, 1, 2} {
					pkgs = append(pkgs, c11pkg{calls: append([]c11call(nil), cur...), twoFiles: two, userFn: uf > 0, userVar: uf == 2})
					if len(cur) >= 2 && !two && uf < 2 {
						pkgs = append(pkgs, c11pkg{calls: append([]c11call(nil), cur...), twoFiles: two, userFn: uf > 0, pregen: true})
					}
					if two && uf > 0 {
						pkgs = append(pkgs, c11pkg{calls: append([]c11call(nil), cur...), twoFiles: two, userFn: true, userVar: uf == 2, lateUse: true})
					}
				}
			}
		}
		if len(cur) == kmax {
			return
		}
		for _, c := range alphabet {
			gen(append(cur, c))
		}
	}
	gen(nil)
	alphabet = alphabet2
	gen(nil)
	alphabet = alphabet3
	gen(nil)
	alphabet = alphabet4
	gen(nil)
	flagSets := [][]string{nil, {"-autoname"}, {"-dedup"}, {"-autoname", "-dedup"}}
	type item struct {
		p  c11pkg
		fl []string
	}
	var items []item
	for _, p := range pkgs {
		for _, fl := range flagSets {
			items = append(items, item{p, fl})
		}
	}
	var mu sync.Mutex
	outcomes := map[string]int{}
	nontriv := 0
	typechecks := 0
	parDo(len(items), func(i int) {
		it := items[i]
		dir := filepath.Join(scratchDir, "c11", fmt.Sprintf("p%06d", i))
		files := it.p.files()
		defer removeAll(dir)
		if it.p.pregen {
			first := c11pkg{calls: it.p.calls[:1], userFn: it.p.userFn, userVar: it.p.userVar}
			writePkg(dir, first.files())
			if pr := goderive(dir, "."); pr.Exit != 0 {
				rep.Violation("rejected-but-must-succeed|flags=(no flags)|single-call", fmt.Sprintf("single call %s rejected: %s", first.label(), head(firstErrorLine(pr.Stderr), 200)), map[string]interface{}{"engine": "e2", "files": first.files()})
				return
			}
			for n, c := range files {
				writeFile(filepath.Join(dir, n), c)
			}
		} else {
			writePkg(dir, files)
		}
		r := goderive(dir, append(append([]string{}, it.fl...), ".")...)
		conflict, dup := it.p.clashes()
		auton, dedup := contains(it.fl, "-autoname"), contains(it.fl, "-dedup")
		flagStr := strings.Join(it.fl, " ")
		if flagStr == "" {
			flagStr = "(no flags)"
		}
		viol := func(clause, what string) {
			key := fmt.Sprintf("%s|flags=%s|conflict=%v|duplicate=%v|userfn=%v|pregen=%v|lateuse=%v", clause, flagStr, conflict, dup, it.p.userFn, it.p.pregen, it.p.lateUse)
			if it.p.userVar {
				key += "|uservar"
			}
			if it.p.late {
				key += "|late-args"
			}
			if it.p.inner {
				key += "|inner-calls"
			}
			if it.p.usesModel() {
				key += "|same-named-imported-types"
			}
			if it.p.calls[0].plugin == "Clone" || it.p.calls[0].plugin == "DeepCopy" {
				key += "|clone+deepcopy"
			}
			rep.Violation(key, fmt.Sprintf("%s: calls %s with %s: %s; goderive exit %d: %s", clause, it.p.label(), flagStr, what, r.Exit, head(firstErrorLine(r.Stderr), 200)),
				map[string]interface{}{"engine": "e2", "files": files, "flags": it.fl, "args": []string{"."}, "pregen_first_call": it.p.pregen, "stderr": tail(r.Stderr, 1500)})
		}
		if r.TimedOut || strings.Contains(r.Stderr, "panic:") || strings.Contains(r.Stderr, "goroutine ") {
			viol("crash", "goderive panicked or hung")
			return
		}
		ok := r.Exit == 0
		var mustFail, mustSucceed bool
		switch {
		case !auton && !dedup:
			mustFail = conflict || dup
			mustSucceed = !mustFail
		case auton && dedup:
			mustSucceed = true
		case auton:
			mustFail = dup && !conflict
			mustSucceed = !conflict && !dup
		case dedup:
			mustFail = conflict && !dup
			mustSucceed = !conflict && !dup
		}
		if mustFail && ok {
			viol("accepted-but-must-fail", "the package has a clash these flags do not resolve, yet goderive succeeded")
		}
		if mustSucceed && !ok {
			viol("rejected-but-must-succeed", "goderive failed")
		}
		mu.Lock()
		outcomes[fmt.Sprintf("flags=%s conflict=%v duplicate=%v exit0=%v", flagStr, conflict, dup, ok)]++
		if conflict || dup {
			nontriv++
		}
		mu.Unlock()
		if ok {
			// soundness of the result
			cp := typeCheckDir(dir, false, c11LocalPkgs())
			mu.Lock()
			typechecks++
			mu.Unlock()
			if len(cp.Errors) > 0 {
				viol("result-does-not-type-check", shortErrs(cp.Errors))
				return
			}
			if dedup {
				seen := map[string]string{}
				for name, ps := range cp.derivedFuncs() {
					pl := "Compare"
					for _, known := range []string{"Equal", "DeepCopy", "Clone"} {
						if strings.HasPrefix(name, "derive"+known) {
							pl = known
						}
					}
					k := pl + "(" + strings.Join(ps, ",") + ")"
					if other, dupl := seen[k]; dupl {
						viol("dedup-left-two-functions", fmt.Sprintf("%s and %s both generated for %s", other, name, k))
					}
					seen[k] = name
				}
			}
		}
	})
	// several packages in one invocation: a clash in any of them must fail the run
	multi := 0
	{
		clean := "package %s\n\ntype T1 struct{ A int }\n\nfunc use() bool { return deriveEqual(&T1{}, &T1{}) }\n"
		clashes := map[string]string{
			"conflict":  "package %s\n\ntype T1 struct{ A int }\ntype T2 struct{ B int }\n\nfunc use() bool { return deriveEqualN(&T1{}, &T1{}) && deriveEqualN(&T2{}, &T2{}) }\n",
			"duplicate": "package %s\n\ntype T1 struct{ A int }\n\nfunc use() bool { return deriveEqualN(&T1{}, &T1{}) && deriveEqualP(&T1{}, &T1{}) }\n",
		}
		type mrun struct {
			kind, bad string
			fl        []string
		}
		var mruns []mrun
		for kind := range clashes {
			for _, bad := range []string{"aaa", "zzz"} {
				for _, fl := range flagSets {
					for rep3 := 0; rep3 < 3; rep3++ {
						mruns = append(mruns, mrun{kind, bad, fl})
					}
				}
			}
		}
		multi = len(mruns)
		parDo(len(mruns), func(i int) {
			mr := mruns[i]
			auton, dedup := contains(mr.fl, "-autoname"), contains(mr.fl, "-dedup")
			resolved := (mr.kind == "conflict" && auton) || (mr.kind == "duplicate" && dedup)
			files := pkgFiles{}
			for _, n := range []string{"aaa", "mmm", "zzz"} {
				if n == mr.bad {
					files[n+"/x.go"] = fmt.Sprintf(clashes[mr.kind], n)
				} else {
					files[n+"/x.go"] = fmt.Sprintf(clean, n)
				}
			}
			dir := filepath.Join(scratchDir, "c11", fmt.Sprintf("m%04d", i))
			writePkg(dir, files)
			defer removeAll(dir)
			r := goderive(dir, append(append([]string{}, mr.fl...), "./...")...)
			if !resolved && r.Exit == 0 {
				rep.Violation(fmt.Sprintf("multi-package-clash-accepted|%s|flags=%s", mr.kind, strings.Join(mr.fl, " ")), fmt.Sprintf("goderive %s ./... over packages aaa, mmm, zzz exits 0 although package %s has a %s these flags do not resolve", strings.Join(mr.fl, " "), mr.bad, mr.kind),
					map[string]interface{}{"engine": "e2", "files": files, "flags": mr.fl, "args": []string{"./..."}})
			}
			if resolved && r.Exit != 0 {
				rep.Violation(fmt.Sprintf("multi-package-run-rejected|%s|flags=%s", mr.kind, strings.Join(mr.fl, " ")), fmt.Sprintf("goderive %s ./... fails although the flags resolve the %s in package %s: %s", strings.Join(mr.fl, " "), mr.kind, mr.bad, head(firstErrorLine(r.Stderr), 200)),
					map[string]interface{}{"engine": "e2", "files": files, "flags": mr.fl, "args": []string{"./..."}})
			}
		})
	}
	rep.Cov["multi_package_runs"] = multi
	states := len(pkgs)
	rep.Cov["states"] = states
	rep.Cov["transitions"] = len(items)
	rep.Cov["traces_validated_against_impl"] = len(items)
	rep.Cov["evaluations"] = len(items)
	rep.Cov["distinct_nontrivial"] = nontriv
	rep.Cov["result_type_checks"] = typechecks
	rep.Cov["rule"] = "state = one package: a sequence of up to k derive calls, each (plugin in {Equal, Compare}) x (name in {bare prefix, prefix+A, prefix+B}) x (argument type in three pairwise non-assignable named struct pointers), in one file or split over two, with or without user functions (func declarations, or package-level variables of function type) that are called and carry the first fresh names goderive would mint (deriveEqual_, deriveCompare_), from scratch or on top of the derived.gen.go an earlier run produced for the first call alone; and with every call after the first taking a derive call as its first argument (the clash only exists from the second pass on; sequences of length 2 [2 and 3]); or being itself the argument of another derive call (renamed in pass 1, the outer call typed in pass 2); the alphabet also holds the curried one-argument form of Equal (a different argument list under the same name); plus all sequences up to k over Equal x {bare, A} x the same-named type T of two imported packages both named model; plus all sequences up to k over {Clone(*T1), Clone(*T2)} and DeepCopy x {bare, A} x {*T1, *T2} (Clone requests a DeepCopy helper itself); transition = one run of the real goderive on a fresh copy under one of the four flag combinations, exit status compared with the independently computed conflict/duplicate predicate, results of successful runs type-checked in-process and (for -dedup) checked for one function per plugin and parameter list; non-trivial = runs on packages with at least one clash"
	rep.Cov["bound"] = fmt.Sprintf("all call sequences of length 1..%d over an 18-call alphabet x {one file, two files} x {no user functions, user functions} x {from scratch, after an earlier run on the first call} = %d package states x 4 flag sets", kmax, states)
	rep.Cov["distinct_outcomes"] = outcomes
	rep.Cov["exhaustive"] = true
	rep.Sample(map[string]interface{}{"package": pkgs[len(pkgs)/2].label(), "files": pkgs[len(pkgs)/2].files()})
	rep.Sample(map[string]interface{}{"package": pkgs[len(pkgs)-1].label()})
	rep.Assume = append(rep.Assume, "exit status is only asserted where the statement fixes it: mixed clashes under a single flag, and pure conflicts under -autoname alone / pure duplicates under -dedup alone, are left open")
	rep.Finish()
}

func contains(ss []string, s string) bool {
	for _, x := range ss {
		if x == s {
			return true
		}
	}
	return false
}
