package main

import (
	"encoding/json"
	"fmt"
	"os"
	"path/filepath"
	"sync"
	"time"
)

// The library driver is a small program linked against the goderive packages of
// the working tree (module replace). It registers plugins in a requested order
// ("perm" mode, C12) and, when built with the map-iteration overlay, explores
// map-iteration orders in-process ("explore" mode, C08).

const libdrvMain = `package main

import (
	"fmt"
	"os"
	"strings"

	"github.com/awalterschulze/goderive/derive"
	"github.com/awalterschulze/goderive/plugin/all"
	"github.com/awalterschulze/goderive/plugin/any"
	"github.com/awalterschulze/goderive/plugin/apply"
	"github.com/awalterschulze/goderive/plugin/clone"
	"github.com/awalterschulze/goderive/plugin/compare"
	"github.com/awalterschulze/goderive/plugin/compose"
	"github.com/awalterschulze/goderive/plugin/contains"
	"github.com/awalterschulze/goderive/plugin/curry"
	"github.com/awalterschulze/goderive/plugin/deepcopy"
	"github.com/awalterschulze/goderive/plugin/do"
	"github.com/awalterschulze/goderive/plugin/dup"
	"github.com/awalterschulze/goderive/plugin/equal"
	"github.com/awalterschulze/goderive/plugin/filter"
	"github.com/awalterschulze/goderive/plugin/flip"
	"github.com/awalterschulze/goderive/plugin/fmap"
	"github.com/awalterschulze/goderive/plugin/gostring"
	"github.com/awalterschulze/goderive/plugin/hash"
	"github.com/awalterschulze/goderive/plugin/intersect"
	"github.com/awalterschulze/goderive/plugin/join"
	"github.com/awalterschulze/goderive/plugin/keys"
	"github.com/awalterschulze/goderive/plugin/max"
	"github.com/awalterschulze/goderive/plugin/mem"
	"github.com/awalterschulze/goderive/plugin/min"
	"github.com/awalterschulze/goderive/plugin/pipeline"
	"github.com/awalterschulze/goderive/plugin/set"
	"github.com/awalterschulze/goderive/plugin/sort"
	"github.com/awalterschulze/goderive/plugin/takewhile"
	"github.com/awalterschulze/goderive/plugin/toerror"
	"github.com/awalterschulze/goderive/plugin/traverse"
	"github.com/awalterschulze/goderive/plugin/tuple"
	"github.com/awalterschulze/goderive/plugin/uncurry"
	"github.com/awalterschulze/goderive/plugin/union"
	"github.com/awalterschulze/goderive/plugin/unique"
)

// allPlugins returns fresh plugins in main.go's registration order.
func allPlugins() []derive.Plugin {
	return []derive.Plugin{
		equal.NewPlugin(), compare.NewPlugin(), fmap.NewPlugin(), join.NewPlugin(), keys.NewPlugin(), sort.NewPlugin(),
		deepcopy.NewPlugin(), set.NewPlugin(), min.NewPlugin(), max.NewPlugin(), contains.NewPlugin(), intersect.NewPlugin(),
		union.NewPlugin(), filter.NewPlugin(), takewhile.NewPlugin(), unique.NewPlugin(), flip.NewPlugin(), toerror.NewPlugin(),
		curry.NewPlugin(), uncurry.NewPlugin(), all.NewPlugin(), any.NewPlugin(), tuple.NewPlugin(), gostring.NewPlugin(),
		compose.NewPlugin(), do.NewPlugin(), pipeline.NewPlugin(), dup.NewPlugin(), clone.NewPlugin(), hash.NewPlugin(),
		mem.NewPlugin(), traverse.NewPlugin(), apply.NewPlugin(),
	}
}

// ordered puts the named plugins first, in the given order, and applies prefix overrides.
func ordered(first string, overrides string) []derive.Plugin {
	ps := allPlugins()
	by := map[string]derive.Plugin{}
	for _, p := range ps {
		by[p.Name()] = p
	}
	var out []derive.Plugin
	used := map[string]bool{}
	for _, n := range strings.Split(first, ",") {
		if p, ok := by[n]; ok && !used[n] {
			out = append(out, p)
			used[n] = true
		}
	}
	for _, p := range ps {
		if !used[p.Name()] {
			out = append(out, p)
		}
	}
	for _, kv := range strings.Split(overrides, ",") {
		if i := strings.IndexByte(kv, '='); i > 0 {
			if p, ok := by[kv[:i]]; ok {
				p.SetPrefix(kv[i+1:])
			}
		}
	}
	return out
}

func main() {
	if len(os.Args) < 2 {
		fmt.Fprintln(os.Stderr, "usage: libdrv perm <first,plugins> <k=v,...> paths... | libdrv explore ...")
		os.Exit(2)
	}
	switch os.Args[1] {
	case "perm":
		ps := ordered(os.Args[2], os.Args[3])
		prog, err := derive.NewPlugins(ps, false, false).Load(derive.ImportPaths(os.Args[4:]))
		if err != nil {
			fmt.Fprintln(os.Stderr, err)
			os.Exit(1)
		}
		if err := prog.Generate(); err != nil {
			fmt.Fprintln(os.Stderr, err)
			os.Exit(1)
		}
	case "explore":
		explore(os.Args[2:])
	default:
		fmt.Fprintln(os.Stderr, "unknown mode")
		os.Exit(2)
	}
}
`

const libdrvNoExplore = `package main

import (
	"fmt"
	"os"
)

func explore(args []string) {
	fmt.Fprintln(os.Stderr, "this driver was built without the map-iteration overlay")
	os.Exit(2)
}
`

var (
	libdrvMu    sync.Mutex
	libdrvPlain string
)

// buildLibDriver builds the driver. extra are additional source files for the
// driver module; overlayJSON, when non-empty, is passed to go build -overlay.
func buildLibDriverWith(name string, extra map[string]string, overlay map[string]string) (string, error) {
	dir := filepath.Join(scratchDir, "libdrv-"+name)
	os.RemoveAll(dir)
	writeFile(filepath.Join(dir, "go.mod"), "module libdrv\n\ngo 1.24\n\nrequire github.com/awalterschulze/goderive v0.0.0\n\nreplace github.com/awalterschulze/goderive => "+repoDir+"\n")
	writeFile(filepath.Join(dir, "go.sum"), readFileOr(filepath.Join(repoDir, "go.sum"), ""))
	writeFile(filepath.Join(dir, "main.go"), libdrvMain)
	for n, c := range extra {
		writeFile(filepath.Join(dir, n), c)
	}
	args := []string{"build", "-o", "libdrv.bin"}
	if len(overlay) > 0 {
		b, _ := json.Marshal(map[string]interface{}{"Replace": overlay})
		writeFile(filepath.Join(dir, "overlay.json"), string(b))
		args = append(args, "-overlay", filepath.Join(dir, "overlay.json"))
	}
	args = append(args, ".")
	r := run(dir, 10*time.Minute, nil, "go", args...)
	if r.Exit != 0 {
		return "", fmt.Errorf("%s", tail(r.Stderr, 3000))
	}
	return filepath.Join(dir, "libdrv.bin"), nil
}

func buildLibDriver(_ interface{}) (string, error) {
	libdrvMu.Lock()
	defer libdrvMu.Unlock()
	if libdrvPlain != "" {
		return libdrvPlain, nil
	}
	p, err := buildLibDriverWith("plain", map[string]string{"explore.go": libdrvNoExplore}, nil)
	if err == nil {
		libdrvPlain = p
	}
	return p, err
}
