package main

import (
	"fmt"
	"strings"
)

func init() {
	checks["C17"] = checkC17
	checks["C18"] = checkC18
}

// ---------------------------------------------------------------- C17

func checkC17(tier string) {
	rep := newReporter("C17", tier)
	ts, bound := elemTypes(tier)
	var cases []*e1Case
	n := 0
	id := func() string { n++; return fmt.Sprintf("c%d", n) }
	for _, t := range ts {
		if t.has("user") {
			continue
		}
		E := t.Expr
		i1 := id()
		cases = append(cases, &e1Case{ID: i1, Ty: t, Tags: map[string]string{"kind": "fmap-slice"}, Funcs: map[string]string{
			"fmap": fmt.Sprintf("func(f func(%s) %s, l []%s) []%s { return deriveFmapAA_%s(f, l) }", E, E, E, E, i1)}})
		i2 := id()
		cases = append(cases, &e1Case{ID: i2, Ty: t, Group: "b", Tags: map[string]string{"kind": "fmap-slice"}, Funcs: map[string]string{
			"fmap": fmt.Sprintf("func(f func(%s) []string, l []%s) [][]string { return deriveFmapAS_%s(f, l) }", E, E, i2)}})
		i3 := id()
		cases = append(cases, &e1Case{ID: i3, Ty: t, Group: "c", Tags: map[string]string{"kind": "join-slice"}, Funcs: map[string]string{
			"join": fmt.Sprintf("func(l [][]%s) []%s { return deriveJoin_%s(l) }", E, E, i3)}})
	}
	// strings: result types of several kinds
	for _, B := range []string{"rune", "string", "int", "Flat", "*int", "[]byte"} {
		i := id()
		cases = append(cases, &e1Case{ID: i, Zero: "(*string)(nil)", Tags: map[string]string{"kind": "fmap-string"}, Funcs: map[string]string{
			"fmap": fmt.Sprintf("func(f func(rune) %s, s string) []%s { return deriveFmapS_%s(f, s) }", B, B, i)}})
	}
	{
		i := id()
		cases = append(cases, &e1Case{ID: i, Zero: "(*string)(nil)", Tags: map[string]string{"kind": "join-string"}, Funcs: map[string]string{
			"join": fmt.Sprintf("func(l []string) string { return deriveJoinS_%s(l) }", i)}})
	}
	env := []string{"VERIF_ELEMK=3", "VERIF_FUEL=3", "VERIF_LISTLEN=3", "VERIF_STRLEN=4"}
	if tier == "thorough" {
		env = []string{"VERIF_ELEMK=3", "VERIF_FUEL=3", "VERIF_LISTLEN=4", "VERIF_STRLEN=5"}
	}
	res := runE1(cases, "C17", 30, env, 1)
	aggregateE1(rep, "C17", cases, res, bound+"; result types {A, []string} for slices and {rune,string,int,Flat,*int,[]byte} for strings",
		"state = one input: every slice of length 0..3 (incl. nil) over a 4-value element pool; every list of up to 3 inner lists over 6 inner shapes (nil, empty, 1, 2 elements, two windows of one shared backing array with spare capacity); every string of up to 4 runes over {1,2,3,4-byte rune, invalid byte} (781 strings); every list of up to 3 string pieces; transition = one generated Fmap/Join call compared with map/concat over []rune, f's call log compared; non-trivial = inputs with >= 2 elements / strings containing a multi-byte rune")
	rep.Finish()
}

// ---------------------------------------------------------------- C18

func checkC18(tier string) {
	rep := newReporter("C18", tier)
	comparable := []string{"int", "string", "Flat", "float64", "[2]int"}
	noncomp := []string{"[]int", "*Flat", "Heap", "Fl", "map[string]int", "[]float32", "[]complex64", "map[[2]uint8]int", "*Und",
		// ==-comparable in Go, but by the identity of the pointers inside: Equal tuples need the hash path
		"[2]*Flat", "PB"}
	results := []string{"int", "string", "[]int", "Flat", "*int"}
	var sigs []string
	seen := map[string]bool{}
	sigParams := map[string][]string{}
	addSig := func(params []string, nres int) {
		var ps []string
		for i, p := range params {
			ps = append(ps, fmt.Sprintf("a%d %s", i, p))
		}
		var rs []string
		for i := 0; i < nres; i++ {
			rs = append(rs, results[(i+len(params))%len(results)])
		}
		r := strings.Join(rs, ", ")
		if nres > 1 {
			r = "(" + r + ")"
		}
		s := "func(" + strings.Join(ps, ", ") + ") " + r
		s = strings.TrimSpace(s)
		if !seen[s] {
			seen[s] = true
			sigs = append(sigs, s)
			sigParams[s] = params
		}
	}
	all := append(append([]string{}, comparable...), noncomp...)
	for nres := 0; nres <= 3; nres++ {
		addSig(nil, nres)
		for _, a := range all {
			addSig([]string{a}, nres)
		}
		// two and three parameters: comparable only, mixed, non-comparable only
		pairs := [][]string{{"int", "string"}, {"int", "int"}, {"Flat", "float64"}, {"int", "[]int"}, {"*Flat", "string"}, {"Heap", "Fl"}, {"[]int", "[]int"}, {"float64", "float64"}}
		if tier == "thorough" {
			pairs = nil
			for _, a := range all {
				for _, b := range all {
					pairs = append(pairs, []string{a, b})
				}
			}
		}
		for _, p := range pairs {
			addSig(p, nres)
		}
		triples := [][]string{{"int", "string", "Flat"}, {"int", "[]int", "string"}, {"Fl", "*Flat", "map[string]int"}, {"float64", "int", "[2]int"}}
		for _, p := range triples {
			addSig(p, nres)
		}
	}
	var cases []*e1Case
	for i, s := range sigs {
		id := fmt.Sprintf("c%d", i+1)
		fs := map[string]string{"mem": fmt.Sprintf("func(f %s) interface{} { return deriveMem_%s(f) }", s, id)}
		if ps := sigParams[s]; len(ps) == 1 {
			fs["hash"] = fmt.Sprintf("func(a %s) uint64 { return deriveHash_%s(a) }", ps[0], id)
		} else if len(ps) > 1 {
			var fl []string
			for j, p := range ps {
				fl = append(fl, fmt.Sprintf("Param%d %s", j, p))
			}
			st := "struct{ " + strings.Join(fl, "; ") + " }"
			fs["hash"] = fmt.Sprintf("func(a %s) uint64 { return deriveHash_%s(a) }", st, id)
		}
		cases = append(cases, &e1Case{ID: id, Zero: "(*" + s + ")(nil)", Key: "mem|" + strings.Join(sigParams[s], ","), Tags: map[string]string{"sig": s}, Funcs: fs})
	}
	hist := "4"
	if tier == "thorough" {
		hist = "5"
	}
	env := []string{"VERIF_ELEMK=3", "VERIF_FUEL=3", "VERIF_HISTLEN=" + hist}
	res := runE1(cases, "C18", 20, env, 1)
	aggregateE1(rep, "C18", cases, res, fmt.Sprintf("%d signatures with 0..3 parameters over comparable {int,string,Flat,float64,[2]int} and non-comparable {[]int,*Flat,Heap,Fl,map[string]int,[]float32,[]complex64,map[[2]uint8]int,*Und,[2]*Flat,PB (struct value holding a pointer)} types and 0..3 results; all call sequences up to length %s over an alphabet of 4 argument tuples (two Equal-but-not-identical, two differing in the last position only) plus a +0/-0 pair per floating point leaf type and up to three hash-colliding non-Equal pairs (one per kind of difference) found by brute force with the derived Hash", len(sigs), hist),
		"state = one call history (sequence of argument tuples) on a fresh memoised function; transition = one call of the memoised function, result compared with f's and f's evaluation count compared with the number of Equal-classes seen so far; non-trivial = histories containing a repeat that must be served from memory")
	rep.Finish()
}
