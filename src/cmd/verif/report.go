package main

import (
	"bufio"
	"crypto/sha256"
	"encoding/hex"
	"encoding/json"
	"fmt"
	"os"
	"path/filepath"
	"sort"
	"strconv"
	"strings"
	"sync"
	"time"
)

// known finding line formats in KNOWN_FINDINGS.txt:
//
//	finding: property=<id> key=<key> :: <what fails>
//	fixed: property=<id> <commit> <what failed>
//
// A key ending in '*' matches by prefix.
type knownFinding struct {
	Prop, Key, Desc string
}

func loadKnown(prop string) []knownFinding {
	f, err := os.Open(filepath.Join(verifDir, "KNOWN_FINDINGS.txt"))
	if err != nil {
		return nil
	}
	defer f.Close()
	var out []knownFinding
	sc := bufio.NewScanner(f)
	sc.Buffer(make([]byte, 1<<20), 1<<24)
	for sc.Scan() {
		l := strings.TrimSpace(sc.Text())
		if !strings.HasPrefix(l, "finding:") {
			continue
		}
		l = strings.TrimSpace(strings.TrimPrefix(l, "finding:"))
		if !strings.HasPrefix(l, "property=") {
			continue
		}
		sp := strings.IndexByte(l, ' ')
		if sp < 0 {
			continue
		}
		p := strings.TrimPrefix(l[:sp], "property=")
		rest := strings.TrimSpace(l[sp+1:])
		if !strings.HasPrefix(rest, "key=") {
			continue
		}
		rest = strings.TrimPrefix(rest, "key=")
		key, desc := rest, ""
		if i := strings.Index(rest, " :: "); i >= 0 {
			key, desc = rest[:i], rest[i+4:]
		}
		if p == prop {
			out = append(out, knownFinding{p, key, desc})
		}
	}
	return out
}

// outDir is where evidence and replay artefacts go: /verif, unless VERIF_OUT
// redirects them (used when a check is pointed at a modified copy of the repository).
func outDir() string { return envOr("VERIF_OUT", verifDir) }

// replayKey, when set, restricts a run to reproducing one recorded violation.
var replayKey string

// Reporter collects violations and coverage of one check run.
type Reporter struct {
	mu       sync.Mutex
	Prop     string
	Tier     string
	Start    time.Time
	known    []knownFinding
	knownHit map[string]int
	newKeys  map[string]string // key -> replay path
	newCount int
	Cov      map[string]interface{}
	samples  []interface{}
	Assume   []string
	infraErr []string
}

func newReporter(prop, tier string) *Reporter {
	return &Reporter{Prop: prop, Tier: tier, Start: time.Now(), known: loadKnown(prop), knownHit: map[string]int{}, newKeys: map[string]string{}, Cov: map[string]interface{}{}}
}

func (r *Reporter) matchKnown(key string) (knownFinding, bool) {
	for _, k := range r.known {
		if k.Key == key {
			return k, true
		}
		if strings.HasSuffix(k.Key, "*") && strings.HasPrefix(key, strings.TrimSuffix(k.Key, "*")) {
			return k, true
		}
	}
	return knownFinding{}, false
}

// Violation reports one violation with its canonical key. replay is any
// JSON-serialisable description sufficient to reproduce it.
func (r *Reporter) Violation(key, what string, replay map[string]interface{}) {
	r.mu.Lock()
	defer r.mu.Unlock()
	if replayKey != "" {
		// replay mode: only the recorded violation is of interest
		if key == replayKey {
			if r.newCount == 0 {
				fmt.Printf("REPRODUCED property=%s key=%s\n  %s\n", r.Prop, key, oneLine(what))
			}
			r.newCount++
		}
		return
	}
	if k, ok := r.matchKnown(key); ok {
		if r.knownHit[k.Key] == 0 {
			fmt.Printf("KNOWN-FINDING: property=%s %s [key=%s] replay=%s\n", r.Prop, oneLine(k.Desc), k.Key, r.writeReplay(key, what, replay))
		}
		r.knownHit[k.Key]++
		return
	}
	r.newCount++
	if _, dup := r.newKeys[key]; dup {
		return
	}
	path := r.writeReplay(key, what, replay)
	r.newKeys[key] = path
	fmt.Printf("VIOLATION property=%s replay=%s\n", r.Prop, path)
	fmt.Printf("  key=%s\n  %s\n", key, oneLine(what))
}

// writeReplay stores the artefact needed to reproduce one violation.
func (r *Reporter) writeReplay(key, what string, replay map[string]interface{}) string {
	if replay == nil {
		replay = map[string]interface{}{}
	}
	replay["property"] = r.Prop
	replay["key"] = key
	replay["what"] = what
	b, _ := json.MarshalIndent(replay, "", " ")
	sum := sha256.Sum256([]byte(r.Prop + "|" + key))
	dir := filepath.Join(outDir(), "replays", r.Prop)
	os.MkdirAll(dir, 0o755)
	path := filepath.Join(dir, hex.EncodeToString(sum[:8])+".json")
	os.WriteFile(path, b, 0o644)
	return path
}

func oneLine(s string) string {
	s = strings.ReplaceAll(s, "\n", " ⏎ ")
	if len(s) > 600 {
		s = s[:600] + "…"
	}
	return s
}

func (r *Reporter) Sample(s interface{}) {
	r.mu.Lock()
	defer r.mu.Unlock()
	if len(r.samples) < 12 {
		r.samples = append(r.samples, s)
	}
}

func (r *Reporter) Infra(msg string) {
	r.mu.Lock()
	defer r.mu.Unlock()
	r.infraErr = append(r.infraErr, msg)
}

// Finish writes the evidence file and exits with the check's status.
func (r *Reporter) Finish() {
	if replayKey != "" {
		cleanup()
		if r.newCount > 0 {
			os.Exit(1)
		}
		fmt.Printf("NOT REPRODUCED property=%s key=%s (the recorded violation does not occur on the current tree)\n", r.Prop, replayKey)
		os.Exit(0)
	}
	if len(r.infraErr) > 0 {
		for _, e := range r.infraErr {
			fmt.Fprintln(os.Stderr, "verif: harness/infrastructure error:", head(e, 1500))
		}
		if r.newCount == 0 {
			cleanup()
			os.Exit(2)
		}
		// violations found by the parts that did run stand on their own
		r.Cov["exhaustive"] = false
		r.Cov["infrastructure_errors"] = len(r.infraErr)
	}
	seed, _ := strconv.Atoi(os.Getenv("VERIF_SEED"))
	cov := r.Cov
	if len(r.samples) == 0 {
		r.samples = append(r.samples, "(no sample recorded)")
	}
	cov["samples"] = r.samples
	kh := []string{}
	for k, n := range r.knownHit {
		kh = append(kh, fmt.Sprintf("%s (x%d)", k, n))
	}
	sort.Strings(kh)
	cov["known_findings_seen"] = kh
	nk := []string{}
	for k := range r.newKeys {
		nk = append(nk, k)
	}
	sort.Strings(nk)
	cov["new_violation_keys"] = nk
	ev := map[string]interface{}{
		"property_id": r.Prop,
		"tier":        r.Tier,
		"seed":        seed,
		"level":       "model_checking",
		"coverage":    cov,
		"assumptions": append([]string{"Go toolchain, reflect and go/format are trusted", "VERIF_SEED is recorded but unused: enumeration is deterministic"}, r.Assume...),
		"wall_s":      time.Since(r.Start).Seconds(),
		"violations":  r.newCount,
	}
	b, _ := json.MarshalIndent(ev, "", " ")
	os.MkdirAll(filepath.Join(outDir(), "evidence"), 0o755)
	if err := os.WriteFile(filepath.Join(outDir(), "evidence", r.Prop+".json"), append(b, '\n'), 0o644); err != nil {
		fatalInfra("writing evidence: %v", err)
	}
	cleanup()
	if r.newCount > 0 {
		fmt.Printf("FAIL property=%s: %d unlisted violation(s), %d distinct key(s)\n", r.Prop, r.newCount, len(r.newKeys))
		os.Exit(1)
	}
	fmt.Printf("OK property=%s tier=%s states=%v transitions=%v known_findings=%d wall=%.1fs\n", r.Prop, r.Tier, cov["states"], cov["transitions"], len(r.knownHit), time.Since(r.Start).Seconds())
	os.Exit(0)
}

func num(m map[string]interface{}, k string) int {
	if v, ok := m[k].(float64); ok {
		return int(v)
	}
	return 0
}

func str(m map[string]interface{}, k string) string {
	if v, ok := m[k].(string); ok {
		return v
	}
	return ""
}
