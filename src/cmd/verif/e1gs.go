package main

import (
	"bufio"
	"encoding/json"
	"fmt"
	"path/filepath"
	"regexp"
	"strconv"
	"strings"
	"time"
)

func init() {
	checks["C06"] = checkC06
}

func checkC06(tier string) {
	rep := newReporter("C06", tier)
	ts, bound := recTypes(tier)
	var cases []*e1Case
	n := 0
	add := func(t *Ty) {
		// exported supported types only: no unexported fields, not the same-named second import
		if t.has("unexported") || t.has("ext2") || t.has("anon") {
			return
		}
		n++
		cases = append(cases, &e1Case{ID: fmt.Sprintf("c%d", n), Ty: t, Roles: []string{"gostring"}})
	}
	for _, t := range ts {
		add(t)
	}
	for _, t := range ts {
		add(fieldForm(t))
	}
	env := []string{"VERIF_VMAX=30", "VERIF_ELEMK=3", "VERIF_FUEL=4"}
	res := runE1(cases, "C06", 40, env, 1, gsStage2)
	// stage-2 records
	s2ok, s2bad := 0, 0
	for _, m := range res.Records {
		switch m["k"] {
		case "s2":
			switch str(m, "verdict") {
			case "ok":
				s2ok++
			case "harness-error":
				rep.Infra(fmt.Sprintf("stage 2: %v: %v", m["case"], m["detail"]))
			default:
				s2bad++
				key := "roundtrip|" + str(m, "verdict") + "|" + str(m, "key")
				if str(m, "verdict") == "type-differs" || str(m, "verdict") == "untyped-nil" || m["panic"] != nil {
					key = "roundtrip|" + str(m, "verdict") + "|" + str(m, "type")
				}
				rep.Violation(key, fmt.Sprintf("GoString round trip on %s value #%d: %s %v", str(m, "type"), num(m, "i"), str(m, "detail"), m["panic"]),
					map[string]interface{}{"engine": "e1", "type": m["type"], "text": m["text"], "detail": m["detail"], "files": m["_files"]})
			}
		case "s2compile":
			s2bad++
			rep.Violation("does-not-compile|"+str(m, "norm"), fmt.Sprintf("GoString text of %s value %s does not compile: %s; text: %s", str(m, "type"), str(m, "show"), str(m, "err"), head(str(m, "text"), 300)),
				map[string]interface{}{"engine": "e1", "type": m["type"], "text": m["text"], "error": m["err"], "value": m["show"], "files": m["_files"]})
		case "s2infra":
			rep.Infra("stage 2: " + str(m, "err"))
		}
	}
	aggregateE1(rep, "C06", cases, res, bound, "state = one pool value (text-biased leaves: quotes, newlines, back-quote, invalid UTF-8, multi-byte runes, extreme integers) of one exported type case; transition = generated GoString call (stage 1) + compilation and evaluation of the returned text in an importing package (stage 2); non-trivial = every value whose text compiled and evaluated to a structurally equal value")
	rep.Cov["distinct_nontrivial"] = s2ok
	rep.Cov["stage2_roundtrips_ok"] = s2ok
	rep.Cov["stage2_failures"] = s2bad
	rep.Finish()
}

var compileErrRe = regexp.MustCompile(`(?m)^(?:\./)?q/main\.go:(\d+):(\d+): (.*)$`)
var digitsRe = regexp.MustCompile(`[0-9]+`)
var identNumRe = regexp.MustCompile(`\bc[0-9]+\b|\b(W|NS|NM)[A-Z][A-Za-z0-9_]*`)

// gsStage2 assembles the stage-2 program from the texts of stage 1, compiles it
// with the real compiler (dropping and reporting expressions that do not
// compile) and runs it.
func gsStage2(dir string, cases []*e1Case, env []string, recs []map[string]interface{}) []map[string]interface{} {
	type entry struct {
		m          map[string]interface{}
		start, end int
	}
	var ents []*entry
	for _, m := range recs {
		if m["k"] == "gs" {
			ents = append(ents, &entry{m: m})
		}
	}
	typeOf := map[string]string{}
	for _, c := range cases {
		typeOf[c.ID] = c.Ty.Expr
	}
	var out []map[string]interface{}
	if len(ents) == 0 {
		return out
	}
	filesOf := func(id string) map[string]string {
		for _, c := range cases {
			if c.ID == id {
				return scenarioFiles([]*e1Case{c}, "")
			}
		}
		return nil
	}
	for round := 0; round < 12; round++ {
		var sb strings.Builder
		sb.WriteString("package main\n\nimport (\n\t\"encoding/json\"\n\t\"os\"\n\trt \"verifrt\"\n\tp \"example.com/v/p\"\n\text \"example.com/v/ext\"\n\t\"example.com/v/geo/v2\"\n)\n\nvar _ ext.Pub\nvar _ geo.Seg\n\nvar entries = []rt.Entry{\n")
		line := strings.Count(sb.String(), "\n") + 1
		for _, e := range ents {
			text := strings.TrimRight(str(e.m, "text"), "\n")
			src := fmt.Sprintf("\t{Case: %q, I: %d, F: func() interface{} {\n\t\treturn %s\n\t}},\n", str(e.m, "case"), num(e.m, "i"), text)
			e.start = line
			line += strings.Count(src, "\n")
			e.end = line - 1
			sb.WriteString(src)
		}
		sb.WriteString("}\n\nfunc main() {\n\tcs := make([]rt.Case, len(p.Cases))\n\tfor i, c := range p.Cases {\n\t\tcs[i] = rt.Case{ID: c.ID, Type: c.Type, Zero: c.Zero}\n\t}\n\tshipped := map[string]string{}\n\tf, _ := os.Open(\"q/shipped.json\")\n\tjson.NewDecoder(f).Decode(&shipped)\n\trt.Stage2(cs, entries, shipped)\n}\n")
		writeFile(filepath.Join(dir, "q", "main.go"), sb.String())
		shipped := map[string]string{}
		for _, e := range ents {
			shipped[fmt.Sprintf("%s#%d", str(e.m, "case"), num(e.m, "i"))] = str(e.m, "canon")
		}
		b, _ := json.Marshal(shipped)
		writeFile(filepath.Join(dir, "q", "shipped.json"), string(b))
		c := run(dir, 10*time.Minute, nil, "go", "build", "-gcflags=-e", "-o", "q.bin", "./q")
		if c.Exit == 0 {
			break
		}
		ms := compileErrRe.FindAllStringSubmatch(c.Stderr, -1)
		if len(ms) == 0 {
			out = append(out, map[string]interface{}{"k": "s2infra", "err": "stage-2 build failed without attributable errors: " + tail(c.Stderr, 1500)})
			return out
		}
		bad := map[*entry]string{}
		for _, m := range ms {
			ln, _ := strconv.Atoi(m[1])
			for _, e := range ents {
				if ln >= e.start && ln <= e.end {
					if _, dup := bad[e]; !dup {
						bad[e] = m[3]
					}
				}
			}
		}
		if len(bad) == 0 {
			out = append(out, map[string]interface{}{"k": "s2infra", "err": "stage-2 build errors outside any expression: " + tail(c.Stderr, 1500)})
			return out
		}
		var keep []*entry
		for _, e := range ents {
			if msg, isBad := bad[e]; isBad {
				norm := digitsRe.ReplaceAllString(identNumRe.ReplaceAllString(msg, "ID"), "N")
				out = append(out, map[string]interface{}{"k": "s2compile", "case": e.m["case"], "type": typeOf[str(e.m, "case")], "i": e.m["i"], "text": e.m["text"], "show": e.m["show"], "err": msg, "norm": norm, "_files": filesOf(str(e.m, "case"))})
			} else {
				keep = append(keep, e)
			}
		}
		ents = keep
		if len(ents) == 0 {
			return out
		}
		if round == 11 {
			out = append(out, map[string]interface{}{"k": "s2infra", "err": "stage-2 program still does not compile after 12 rounds"})
			return out
		}
	}
	h := run(dir, 10*time.Minute, env, filepath.Join(dir, "q.bin"))
	if h.Exit != 0 {
		out = append(out, map[string]interface{}{"k": "s2infra", "err": fmt.Sprintf("stage-2 program exit %d: %s", h.Exit, tail(h.Stderr, 1500))})
		return out
	}
	textOf := map[string]interface{}{}
	for _, e := range ents {
		textOf[fmt.Sprintf("%s#%d", str(e.m, "case"), num(e.m, "i"))] = e.m["text"]
	}
	sc := bufio.NewScanner(strings.NewReader(h.Stdout))
	sc.Buffer(make([]byte, 1<<20), 1<<26)
	for sc.Scan() {
		var m map[string]interface{}
		if json.Unmarshal(sc.Bytes(), &m) == nil {
			if str(m, "verdict") != "ok" {
				m["text"] = textOf[fmt.Sprintf("%s#%d", str(m, "case"), num(m, "i"))]
				m["_files"] = filesOf(str(m, "case"))
			}
			out = append(out, m)
		}
	}
	return out
}
