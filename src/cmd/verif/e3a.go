package main

import (
	"fmt"
	"go/ast"
	"go/token"
	"go/types"
	"os"
	"path/filepath"
	"sort"
	"strings"
)

// instrumentConcurrency rewrites every channel / WaitGroup / go / select
// operation of one Go file of a type-checked package into calls of the mc shim.
// It returns the new source, or an error naming a construct it cannot own.
type concRewriter struct {
	fset   *token.FileSet
	src    []byte
	info   *types.Info
	counts map[string]int
	errs   []string
	// inRewrite holds the nodes whose rewrite is in progress (their own text is asked for by fallbacks)
	inRewrite map[ast.Node]bool
	// runtimeName is the name package runtime is imported under, when a call into it was taken over
	runtimeName string
}

func (r *concRewriter) off(p token.Pos) int { return r.fset.Position(p).Offset }

func (r *concRewriter) isChan(e ast.Expr) bool {
	tv, ok := r.info.Types[e]
	if !ok {
		return false
	}
	_, is := tv.Type.Underlying().(*types.Chan)
	return is
}

func (r *concRewriter) isWaitGroup(e ast.Expr) bool {
	tv, ok := r.info.Types[e]
	if !ok {
		return false
	}
	t := tv.Type
	if p, ok := t.(*types.Pointer); ok {
		t = p.Elem()
	}
	n, ok := t.(*types.Named)
	return ok && n.Obj().Pkg() != nil && n.Obj().Pkg().Path() == "sync" && n.Obj().Name() == "WaitGroup"
}

// isProcsCall: runtime.GOMAXPROCS(n) / runtime.NumCPU(), an answer of the environment
func (r *concRewriter) isProcsCall(x *ast.CallExpr) bool {
	sel, ok := x.Fun.(*ast.SelectorExpr)
	if !ok {
		return false
	}
	id, ok := sel.X.(*ast.Ident)
	if !ok {
		return false
	}
	if pn, ok := r.info.Uses[id].(*types.PkgName); ok && pn.Imported().Path() == "runtime" {
		return sel.Sel.Name == "GOMAXPROCS" || sel.Sel.Name == "NumCPU"
	}
	return false
}

func (r *concRewriter) isAtomicPkg(id *ast.Ident) bool {
	if pn, ok := r.info.Uses[id].(*types.PkgName); ok {
		return pn.Imported().Path() == "sync/atomic"
	}
	return false
}

// rewritable reports whether n is a construct the shim takes over.
func (r *concRewriter) rewritable(n ast.Node) bool {
	switch x := n.(type) {
	case *ast.SendStmt, *ast.GoStmt, *ast.SelectStmt:
		return true
	case *ast.RangeStmt:
		return r.isChan(x.X)
	case *ast.UnaryExpr:
		return x.Op == token.ARROW
	case *ast.CallExpr:
		if id, ok := x.Fun.(*ast.Ident); ok {
			switch id.Name {
			case "make":
				if len(x.Args) >= 1 {
					if _, ok := x.Args[0].(*ast.ChanType); ok {
						return true
					}
				}
			case "close":
				return len(x.Args) == 1
			case "len":
				return len(x.Args) == 1 && r.isChan(x.Args[0])
			}
		}
		if r.isProcsCall(x) {
			return true
		}
		if sel, ok := x.Fun.(*ast.SelectorExpr); ok {
			if id, ok := sel.X.(*ast.Ident); ok && r.isAtomicPkg(id) {
				return true
			}
		}
		if sel, ok := x.Fun.(*ast.SelectorExpr); ok && r.isWaitGroup(sel.X) {
			switch sel.Sel.Name {
			case "Add", "Done", "Wait":
				return true
			}
		}
	}
	return false
}

// text renders n with every outermost rewritable descendant replaced (and n
// itself when it is rewritable).
func (r *concRewriter) text(n ast.Node) string {
	if n == nil {
		return ""
	}
	if !r.inRewrite[n] && r.rewritable(n) {
		return r.rewrite(n)
	}
	type rep struct {
		from, to int
		s        string
	}
	var reps []rep
	ast.Inspect(n, func(c ast.Node) bool {
		if c == nil || c == n {
			return true
		}
		if r.rewritable(c) {
			reps = append(reps, rep{r.off(c.Pos()), r.off(c.End()), r.rewrite(c)})
			return false
		}
		return true
	})
	base := r.off(n.Pos())
	out := string(r.src[base:r.off(n.End())])
	sort.Slice(reps, func(i, j int) bool { return reps[i].from > reps[j].from })
	for _, p := range reps {
		out = out[:p.from-base] + p.s + out[p.to-base:]
	}
	return out
}

func (r *concRewriter) rewrite(n ast.Node) string {
	if r.inRewrite == nil {
		r.inRewrite = map[ast.Node]bool{}
	}
	r.inRewrite[n] = true
	defer delete(r.inRewrite, n)
	switch x := n.(type) {
	case *ast.SendStmt:
		r.counts["send"]++
		return "mc.Send(" + r.text(x.Chan) + ", " + r.text(x.Value) + ")"
	case *ast.UnaryExpr:
		r.counts["recv"]++
		return "mc.Recv1(" + r.text(x.X) + ")"
	case *ast.GoStmt:
		r.counts["go"]++
		if fl, ok := x.Call.Fun.(*ast.FuncLit); ok && len(x.Call.Args) == 0 {
			return "mc.Go(" + r.text(fl) + ")"
		}
		if len(x.Call.Args) == 0 {
			return "mc.Go(func() { " + r.text(x.Call) + " })"
		}
		// arguments are evaluated at the go statement, the call runs in the new goroutine
		var sb strings.Builder
		var names []string
		sb.WriteString("{\n")
		for i, a := range x.Call.Args {
			n := fmt.Sprintf("mcgoarg%d__", i)
			names = append(names, n)
			sb.WriteString(n + " := " + r.text(a) + "\n")
		}
		if x.Call.Ellipsis.IsValid() && len(names) > 0 {
			names[len(names)-1] += "..."
		}
		sb.WriteString("mc.Go(func() { (" + r.text(x.Call.Fun) + ")(" + strings.Join(names, ", ") + ") })\n}")
		return sb.String()
	case *ast.RangeStmt:
		r.counts["range-chan"]++
		key := "_"
		if x.Key != nil {
			key = r.text(x.Key)
		}
		if x.Value != nil {
			r.errs = append(r.errs, fmt.Sprintf("%s: range over channel with two variables", r.fset.Position(x.Pos())))
		}
		assign := ":="
		if x.Tok == token.ASSIGN {
			assign = "="
		}
		if key == "_" {
			return "for {\n_, mcok__ := mc.Recv(" + r.text(x.X) + ")\nif !mcok__ {\nbreak\n}\n" + r.text(x.Body) + "\n}"
		}
		if assign == "=" {
			return "for {\nvar mcok__ bool\n" + key + ", mcok__ = mc.Recv(" + r.text(x.X) + ")\nif !mcok__ {\nbreak\n}\n" + r.text(x.Body) + "\n}"
		}
		return "for {\n" + key + ", mcok__ := mc.Recv(" + r.text(x.X) + ")\nif !mcok__ {\nbreak\n}\n" + r.text(x.Body) + "\n}"
	case *ast.SelectStmt:
		r.counts["select"]++
		var cases, bodies []string
		hasDefault := false
		def := ""
		idx := 0
		for _, cl := range x.Body.List {
			cc := cl.(*ast.CommClause)
			var body strings.Builder
			for _, st := range cc.Body {
				body.WriteString(r.text(st) + "\n")
			}
			if cc.Comm == nil {
				hasDefault = true
				def = body.String()
				continue
			}
			pre := ""
			switch c := cc.Comm.(type) {
			case *ast.SendStmt:
				cases = append(cases, "mc.SendCase("+r.text(c.Chan)+", "+r.text(c.Value)+")")
			case *ast.ExprStmt:
				u, ok := c.X.(*ast.UnaryExpr)
				if !ok || u.Op != token.ARROW {
					r.errs = append(r.errs, fmt.Sprintf("%s: unsupported select case", r.fset.Position(c.Pos())))
					continue
				}
				cases = append(cases, "mc.RecvCase("+r.text(u.X)+")")
			case *ast.AssignStmt:
				u, ok := c.Rhs[0].(*ast.UnaryExpr)
				if !ok || u.Op != token.ARROW {
					r.errs = append(r.errs, fmt.Sprintf("%s: unsupported select case", r.fset.Position(c.Pos())))
					continue
				}
				chanTxt := r.text(u.X)
				cases = append(cases, "mc.RecvCase("+chanTxt+")")
				lhs := []string{"_", "_"}
				for i, l := range c.Lhs {
					if i < 2 {
						lhs[i] = r.text(l)
					}
				}
				tok := c.Tok.String()
				if lhs[0] == "_" && lhs[1] == "_" {
					tok = "="
				}
				pre = fmt.Sprintf("%s, %s %s mc.SelRecv(mcsel__, %s)\n", lhs[0], lhs[1], tok, chanTxt)
				for i, l := range lhs {
					if l != "_" && c.Tok == token.DEFINE {
						pre += fmt.Sprintf("_ = %s\n", lhs[i])
					}
				}
			}
			bodies = append(bodies, fmt.Sprintf("case %d:\n%s%s", idx, pre, body.String()))
			idx++
		}
		out := fmt.Sprintf("switch mcsel__ := mc.Select(%v, %s); mcsel__.Index {\n%s", hasDefault, strings.Join(cases, ", "), strings.Join(bodies, ""))
		if hasDefault {
			out += "default:\n" + def
		}
		return out + "}"
	case *ast.CallExpr:
		if id, ok := x.Fun.(*ast.Ident); ok {
			switch id.Name {
			case "make":
				r.counts["make-chan"]++
				ct := x.Args[0].(*ast.ChanType)
				n := "0"
				if len(x.Args) > 1 {
					n = r.text(x.Args[1])
				}
				return "mc.Make[" + r.text(ct.Value) + "](" + n + ")"
			case "close":
				r.counts["close"]++
				return "mc.Close(" + r.text(x.Args[0]) + ")"
			case "len":
				return "mc.Len(" + r.text(x.Args[0]) + ")"
			}
		}
		if r.isProcsCall(x) {
			// the number of processors is an answer of the environment: the harness decides it
			r.counts["procs"]++
			r.runtimeName = r.text(x.Fun.(*ast.SelectorExpr).X)
			return "mc.Procs()"
		}
		sel := x.Fun.(*ast.SelectorExpr)
		if id, ok := sel.X.(*ast.Ident); ok && r.isAtomicPkg(id) {
			// a package-level sync/atomic function: a scheduling point, then the real operation
			r.counts["atomic"]++
			var args []string
			for _, a := range x.Args {
				args = append(args, r.text(a))
			}
			call := r.text(sel.X) + "." + sel.Sel.Name + "(" + strings.Join(args, ", ") + ")"
			if tv, ok := r.info.Types[x]; ok {
				if tup, isTuple := tv.Type.(*types.Tuple); isTuple && tup.Len() == 0 {
					return "mc.Atomic0(func() { " + call + " })"
				}
				return "mc.Atomic(func() " + types.TypeString(tv.Type, func(p *types.Package) string { return p.Name() }) + " { return " + call + " })"
			}
			return "mc.Atomic0(func() { " + call + " })"
		}
		recv := r.text(sel.X)
		if tv, ok := r.info.Types[sel.X]; ok {
			if _, isPtr := tv.Type.(*types.Pointer); !isPtr {
				recv = "&" + recv
			}
		}
		r.counts["waitgroup"]++
		switch sel.Sel.Name {
		case "Add":
			return "mc.WGAdd(" + recv + ", " + r.text(x.Args[0]) + ")"
		case "Done":
			return "mc.WGAdd(" + recv + ", -1)"
		default:
			return "mc.WGWait(" + recv + ")"
		}
	}
	return r.text(n)
}

// instrumentFile rewrites one file of a checked package.
func instrumentFile(cp *checkedPkg, name string, path string) (string, map[string]int, error) {
	f := cp.Files[name]
	src, err := os.ReadFile(path)
	if err != nil {
		return "", nil, err
	}
	r := &concRewriter{fset: cp.Fset, src: src, info: cp.Info, counts: map[string]int{}}
	// uninstrumentable imports
	for _, im := range f.Imports {
		switch strings.Trim(im.Path.Value, `"`) {
		case "time", "context", "os/signal":
			r.errs = append(r.errs, "import of "+im.Path.Value)
		}
	}
	var sb strings.Builder
	// header up to and including the package clause
	pe := r.off(f.Name.End())
	sb.Write(src[:pe])
	sb.WriteString("\n\nimport mc \"verifrt/mc\"\n")
	prev := pe
	for _, d := range f.Decls {
		sb.Write(src[prev:r.off(d.Pos())])
		sb.WriteString(r.text(d))
		prev = r.off(d.End())
	}
	sb.Write(src[prev:])
	sb.WriteString("\nvar _ = mc.Active\n")
	if r.runtimeName != "" {
		sb.WriteString("\nvar _ = " + r.runtimeName + ".NumCPU // keeps the import used\n")
	}
	if len(r.errs) > 0 {
		return "", nil, fmt.Errorf("%s", strings.Join(r.errs, "; "))
	}
	return sb.String(), r.counts, nil
}

// buildConcScenario generates user.go, runs goderive, instruments
// derived.gen.go, writes the harness and builds the explorer binary.
func buildConcScenario(name string, userSrc, harnessSrc, lang string) (bin string, counts map[string]int, inconclusive string, err error) {
	dir := filepath.Join(scratchDir, "e3a", name)
	files := pkgFiles{
		"go.mod":    "module example.com/v\n\ngo 1.24\n\nrequire verifrt v0.0.0\n\nreplace verifrt => " + filepath.Join(verifDir, "rt") + "\n",
		"p/user.go": userSrc,
	}
	writePkg(dir, files)
	g := run(dir, 3*60e9, nil, buildGoderive(), "./p")
	if g.Exit != 0 {
		return "", nil, "", fmt.Errorf("goderive fails on the %s scenario package: %s", name, head(firstErrorLine(g.Stderr), 300))
	}
	cp := typeCheckDir(filepath.Join(dir, "p"), false, nil)
	if len(cp.Errors) > 0 {
		return "", nil, "", fmt.Errorf("generated code of the %s scenario does not type-check: %s", name, shortErrs(cp.Errors))
	}
	out, counts, ierr := instrumentFile(cp, "derived.gen.go", filepath.Join(dir, "p", "derived.gen.go"))
	if ierr != nil {
		return "", nil, ierr.Error(), nil
	}
	writeFile(filepath.Join(dir, "p", "derived.gen.go"), langConstraint(lang)+out)
	if harnessSrc == "" {
		return "", counts, "", nil
	}
	writeFile(filepath.Join(dir, "main.go"), harnessSrc)
	b := run(dir, 10*60e9, nil, "go", "build", "-o", "explore.bin", ".")
	if b.Exit != 0 {
		return "", counts, "", fmt.Errorf("instrumented %s scenario does not build:\n%s\n--- instrumented derived.gen.go ---\n%s", name, tail(b.Stderr, 2500), head(out, 6000))
	}
	return filepath.Join(dir, "explore.bin"), counts, "", nil
}

// langConstraint makes the generated file compile under an older language
// version than the scenario module's (a user module that still says go 1.21:
// loop variables are shared between iterations there).
func langConstraint(lang string) string {
	if lang == "" {
		return ""
	}
	return "//go:build " + lang + "\n\n"
}
