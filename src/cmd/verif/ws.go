package main

import (
	"bytes"
	"context"
	"fmt"
	"os"
	"os/exec"
	"os/signal"
	"path/filepath"
	"runtime"
	"sync"
	"syscall"
	"time"
)

const goToolchainBin = "/root/go/pkg/mod/golang.org/toolchain@v0.0.1-go1.24.0.linux-amd64/bin"

var (
	verifDir   = envOr("VERIF_DIR", "/verif")
	repoDir    = envOr("VERIF_REPO", "/repo")
	scratchDir string
	workers    = runtime.NumCPU()
)

func envOr(k, d string) string {
	if v := os.Getenv(k); v != "" {
		return v
	}
	return d
}

// goEnv is the environment for every go / goderive invocation.
func goEnv(extra ...string) []string {
	env := []string{}
	for _, kv := range os.Environ() {
		if len(kv) > 5 && kv[:5] == "PATH=" {
			continue
		}
		if hasAnyPrefix(kv, "GOFLAGS=", "GOPROXY=", "GOTOOLCHAIN=", "GOSUMDB=", "GO111MODULE=", "GOWORK=") {
			continue
		}
		env = append(env, kv)
	}
	env = append(env,
		"PATH="+goToolchainBin+":"+os.Getenv("PATH"),
		"GOTOOLCHAIN=local", "GOFLAGS=-mod=mod", "GOPROXY=off", "GO111MODULE=on", "GOWORK=off")
	return append(env, extra...)
}

func hasAnyPrefix(s string, ps ...string) bool {
	for _, p := range ps {
		if len(s) >= len(p) && s[:len(p)] == p {
			return true
		}
	}
	return false
}

// initScratch creates the per-run scratch directory and arranges removal.
func initScratch() {
	base := envOr("VERIF_TMP", os.TempDir())
	d, err := os.MkdirTemp(base, "verif.")
	if err != nil {
		fatalInfra("scratch dir: %v", err)
	}
	scratchDir = d
	// a closed stdout (e.g. `| head`) must not kill the process before it cleaned up
	signal.Ignore(syscall.SIGPIPE)
	c := make(chan os.Signal, 1)
	signal.Notify(c, os.Interrupt, syscall.SIGTERM, syscall.SIGHUP)
	go func() {
		<-c
		cleanup()
		os.Exit(2)
	}()
}

func cleanup() {
	if scratchDir != "" && os.Getenv("VERIF_KEEP") == "" {
		os.RemoveAll(scratchDir)
	}
}

func fatalInfra(format string, a ...interface{}) {
	fmt.Fprintf(os.Stderr, "verif: infrastructure error: "+format+"\n", a...)
	cleanup()
	os.Exit(2)
}

type runResult struct {
	Stdout, Stderr string
	Exit           int
	TimedOut       bool
	Dur            time.Duration
}

// run executes a command with the go environment.
func run(dir string, timeout time.Duration, extraEnv []string, name string, args ...string) runResult {
	ctx, cancel := context.WithTimeout(context.Background(), timeout)
	defer cancel()
	if name == goderiveBin && goderiveBin != "" {
		// the sandbox has no memory limit of its own: a runaway generator must
		// fail (fatal error: out of memory) instead of taking the machine down
		args = append([]string{"-c", `ulimit -v 6000000; exec "$0" "$@"`, name}, args...)
		name = "/bin/sh"
	}
	cmd := exec.CommandContext(ctx, name, args...)
	cmd.Dir = dir
	cmd.Env = goEnv(extraEnv...)
	var so, se bytes.Buffer
	cmd.Stdout, cmd.Stderr = &so, &se
	cmd.SysProcAttr = &syscall.SysProcAttr{Setpgid: true}
	cmd.Cancel = func() error {
		if cmd.Process != nil {
			syscall.Kill(-cmd.Process.Pid, syscall.SIGKILL)
		}
		return nil
	}
	t0 := time.Now()
	err := cmd.Run()
	r := runResult{Stdout: so.String(), Stderr: se.String(), Dur: time.Since(t0)}
	if ctx.Err() == context.DeadlineExceeded {
		r.TimedOut = true
		r.Exit = -1
		return r
	}
	if err != nil {
		if ee, ok := err.(*exec.ExitError); ok {
			r.Exit = ee.ExitCode()
		} else {
			r.Exit = -2
			r.Stderr += "\n" + err.Error()
		}
	}
	return r
}

var goderiveBin string

// buildGoderive builds the tool from the current working tree of the repository.
func buildGoderive() string {
	if goderiveBin != "" {
		return goderiveBin
	}
	out := filepath.Join(scratchDir, "bin", "goderive")
	os.MkdirAll(filepath.Dir(out), 0o755)
	r := run(repoDir, 10*time.Minute, nil, "go", "build", "-o", out, ".")
	if r.Exit != 0 {
		// the repository does not build: nothing can be decided
		fatalInfra("building goderive from %s failed:\n%s", repoDir, r.Stderr)
	}
	goderiveBin = out
	return out
}

// parDo runs fn(i) for i in [0,n) on `workers` goroutines.
func parDo(n int, fn func(i int)) {
	var wg sync.WaitGroup
	ch := make(chan int)
	w := workers
	if w > n {
		w = n
	}
	for k := 0; k < w; k++ {
		wg.Add(1)
		go func() {
			defer wg.Done()
			for i := range ch {
				fn(i)
			}
		}()
	}
	for i := 0; i < n; i++ {
		ch <- i
	}
	close(ch)
	wg.Wait()
}

func writeFile(path, content string) {
	os.MkdirAll(filepath.Dir(path), 0o755)
	if err := os.WriteFile(path, []byte(content), 0o644); err != nil {
		fatalInfra("write %s: %v", path, err)
	}
}

func readFileOr(path, def string) string {
	b, err := os.ReadFile(path)
	if err != nil {
		return def
	}
	return string(b)
}

func removeAll(dir string) {
	if os.Getenv("VERIF_KEEP") == "" {
		os.RemoveAll(dir)
	}
}
