package main

import (
	"regexp"
	"sort"
	"strings"
)

// Ty is a type of the scenario grammar.
type Ty struct {
	Expr       string // Go expression as written inside scenario package p
	Kind       string // basic, nbasic, struct, ptr, slice, array, map, nslice, nmap
	Elem, Key  *Ty
	Depth      int
	Comparable bool   // usable with == / as map key
	Ordered    bool   // usable with <
	Under      string // for basic / nbasic: underlying basic kind name
	Decl       string // extra declaration this type needs (wrappers)
	Flags      map[string]bool
}

func (t *Ty) has(f string) bool { return t.Flags[f] }

func flagsOf(ts ...*Ty) map[string]bool {
	m := map[string]bool{}
	for _, t := range ts {
		if t == nil {
			continue
		}
		for k, v := range t.Flags {
			if v {
				m[k] = true
			}
		}
	}
	return m
}

// AssignKey identifies the class of mutually assignable root types.
func (t *Ty) AssignKey() string {
	k := t.Expr
	switch t.Kind {
	case "nslice":
		k = "[]" + t.Elem.Expr
	case "nmap":
		k = "map[string]" + t.Elem.Expr
	}
	// byte and rune are aliases: identical types for goderive
	return aliasRe.ReplaceAllStringFunc(k, func(s string) string {
		if s == "byte" {
			return "uint8"
		}
		return "int32"
	})
}

var aliasRe = regexp.MustCompile(`\b(byte|rune)\b`)

func mangle(expr string) string {
	r := strings.NewReplacer("*", "P", "[]", "S", "[2]", "A2", "map[", "M", "[", "G", "]", "_", ".", "_", " ", "", "{", "", "}", "", ";", "")
	return r.Replace(expr)
}

var allBasics = []string{"bool", "int", "int8", "int16", "int32", "int64", "uint", "uint8", "uint16", "uint32", "uint64", "uintptr",
	"float32", "float64", "complex64", "complex128", "string", "byte", "rune"}

var repBasics = []string{"bool", "int", "uint8", "float64", "string", "complex128"}

func basicTy(name string) *Ty {
	t := &Ty{Expr: name, Kind: "basic", Comparable: true, Under: name, Flags: map[string]bool{}}
	switch name {
	case "bool", "complex64", "complex128":
	default:
		t.Ordered = true
	}
	if strings.HasPrefix(name, "float") || strings.HasPrefix(name, "complex") {
		t.Flags["float"] = true
	}
	return t
}

func namedBasics() []*Ty {
	mk := func(name, under string) *Ty {
		b := basicTy(under)
		return &Ty{Expr: name, Kind: "nbasic", Comparable: true, Ordered: b.Ordered, Under: under, Flags: flagsOf(b)}
	}
	lv := mk("ext.Level", "int")
	lv.Flags["ext"] = true
	return []*Ty{mk("MyInt", "int"), mk("MyStr", "string"), mk("MyBool", "bool"), mk("MyFloat", "float64"), lv, mk("MyU64", "uint64")}
}

// fixedDecls is the source of the named types every scenario package declares.
const fixedDecls = `
type MyInt int
type MyStr string
type MyBool bool
type MyFloat float64
type MyU64 uint64

// MA and MB are different named map types with one underlying type.
type MA map[string]int
type MB map[string]int

type Twin struct {
	L MA
	A MB
	N int
}

type Flat struct {
	A int
	B string
}

type Heap struct {
	P *int
	S []int
	M map[string]int
	Y []byte
}

type Rec struct {
	V    int
	Next *Rec
	Kids []Rec
	By   map[string]*Rec
}

type Emb struct {
	Flat
	*Heap
	Z int
}

type priv struct {
	a int
	b []string
}

type Fl struct {
	X float64
	S []float32
}

// Two holds same-named types of two same-named imported packages.
type Two struct {
	A ext.Pub
	B ext2.Pub
	C *ext.Pub
	D []ext2.Pub
	E ext.Level
	F ext.Pt
	G ext2.Pt
}

// UOrd declares a Compare method that is a total order over all of its fields
// but not the field-wise one (priority descending, then name ascending).
type UOrd struct {
	N string
	P int
}

func (x *UOrd) Compare(y *UOrd) int {
	if x == nil || y == nil {
		if x == nil && y == nil {
			return 0
		}
		if x == nil {
			return -1
		}
		return 1
	}
	if x.P != y.P {
		if x.P > y.P {
			return -1
		}
		return 1
	}
	if x.N < y.N {
		return -1
	}
	if x.N > y.N {
		return 1
	}
	return 0
}

// Shower is a user interface and ShowErr a type implementing it and error.
type Shower interface{ Show() string }

type ShowErr struct{ M string }

func (e *ShowErr) Show() string  { return e.M }
func (e *ShowErr) Error() string { return e.M }

// Und has fields whose names start with an underscore (not blank ones).
type Und struct {
	A     int
	_rev  int
	_tags []string
	_p    *int
}

// Pad has blank (padding) fields.
type Pad struct {
	A int
	_ int32
	B []int
	_ [4]byte
}

// Wins is keyed by an imported struct whose unexported fields have a named type.
type Wins struct {
	M map[ext.Win]string
}

// UDiff declares a Compare method that answers with numbers other than -1 and +1, as strings.Compare-style comparators may.
type UDiff struct {
	Major, Minor int
}

func (x *UDiff) Compare(y *UDiff) int {
	if x == nil || y == nil {
		if x == nil && y == nil {
			return 0
		}
		if x == nil {
			return -7
		}
		return 7
	}
	far := func(a, b int) int { // sign only (no overflow), magnitude 3
		switch {
		case a < b:
			return -3
		case a > b:
			return 3
		}
		return 0
	}
	if d := far(x.Major, y.Major); d != 0 {
		return d
	}
	return far(x.Minor, y.Minor)
}

// FK and IK are comparable key structs: a float, resp. a machine int, next to another component.
type FK struct {
	X float64
	N string
}

type IK struct {
	T int
	N string
}

// CK is a comparable key struct whose later components are themselves structs / arrays of structs.
type CK struct {
	L  string
	At Flat
	Ar [2]IK
}

// BK is a comparable key struct with a bool in front of the component that tells keys apart.
type BK struct {
	On bool
	N  string
}

type KeyMaps struct {
	F map[FK]int
	A map[[2]float32]string
	I map[IK]string
	B map[[2]uint8]int
}

// one struct per further key type: a struct's pool is cut at the root, so every map needs
// a struct of its own to get its multi-entry values explored
type KMC struct{ M map[CK]int }

type KMD struct{ M map[BK]int }

// WU wraps a type with Equal/Compare methods in a comparable struct; WrapUser holds it next to a slice.
type WU struct{ V UEq }

type WrapUser struct {
	X WU
	L []int
}

// PB is comparable with ==, but only by the identity of the pointer it holds.
type PB struct {
	P *int
	N int
}

// K* are comparable key structs: one leading component of each remaining kind in front of the one that tells keys apart.
type KI8 struct {
	A int8
	N string
}

type KU16 struct {
	A uint16
	N string
}

type KF32 struct {
	A float32
	N string
}

type KC64 struct {
	A complex64
	N string
}

type KAB struct {
	A [2]bool
	N string
}

type KMS struct {
	A MyStr
	N string
}

type KU struct {
	A uintptr
	N string
}

type KR struct {
	A rune
	N string
}

type KMI8 struct{ M map[KI8]int }

type KMU16 struct{ M map[KU16]int }

type KMF32 struct{ M map[KF32]int }

type KMC64 struct{ M map[KC64]int }

type KMAB struct{ M map[KAB]int }

type KMMS struct{ M map[KMS]int }

type KMU struct{ M map[KU]int }

type KMR struct{ M map[KR]int }

// Box is generic; each instantiation is a named struct of its own.
type Box[T any] struct {
	V T
	L []T
	P *T
}

// Unit has nothing to compare, OnlyPad only padding.
type Unit struct{}

type OnlyPad struct{ _ int32 }

type Units struct {
	U  *Unit
	P  *OnlyPad
	Us []*Unit
	M  map[string]*Unit
	Z  int
}

// NPath and []Vtx are a named/unnamed pair with one underlying type (Vtx is
// used nowhere else, so that no other case's named slice type competes).
type Vtx struct{ X, Y int }

type NPath []Vtx

type Shape struct {
	Outline NPath
	Holes   *[]Vtx
}

// Vers holds same-named types of two same-named packages, one with methods.
type Vers struct {
	A ext.Ver
	B ext2.Ver
	L []ext2.Ver
}

// SameName holds a type of an imported package that is named like this one.
type SameName struct {
	I p.Item
	P *p.Item
	L []p.Item
}

// Anon has anonymous struct fields (Equal, Hash and GoString take them; Compare
// and DeepCopy refuse them with a diagnostic).
type Anon struct {
	A int
	F struct{ S []int }
	G struct{ X int }
	E struct{}
	P *struct {
		M map[string]int
		L []string
	}
}

// Far holds a type of a package whose name (geo) is not the last element of
// its import path (example.com/v/geo/v2).
type Far struct {
	S geo.Seg
	L []*geo.Seg
}

// UEq and UEqV declare their own, deliberately non-structural, Equal and
// Compare methods (field A only); nil-safe and mutually consistent.
type UEq struct{ A, B int }

func (x *UEq) Equal(y *UEq) bool {
	if x == nil || y == nil {
		return x == nil && y == nil
	}
	return x.A == y.A
}

func (x *UEq) Compare(y *UEq) int {
	if x == nil {
		if y == nil {
			return 0
		}
		return -1
	}
	if y == nil {
		return 1
	}
	if x.A < y.A {
		return -1
	}
	if x.A > y.A {
		return 1
	}
	return 0
}

type UEqV struct{ A, B int }

func (x UEqV) Equal(y UEqV) bool { return x.A == y.A }

func (x UEqV) Compare(y UEqV) int {
	if x.A < y.A {
		return -1
	}
	if x.A > y.A {
		return 1
	}
	return 0
}
`

const extSrc = `package ext

type Pub struct {
	A int
	S []string
	P *int
}

type Priv struct {
	a int
	s []string
	p *int
	M map[string]int
}

type Cmp struct {
	a int
	B string
}

type Level int

type Pt struct {
	X, Y int
}

type Tick int

// Win is comparable; its unexported fields have a named type.
type Win struct {
	start  Tick
	length Tick
	Label  string
}

// Blank has a blank field and no other unexported one; Sess has a blank
// field in front of its unexported ones.
type Blank struct {
	A int
	_ struct{}
	B []string
}

type Sess struct {
	ID           int
	_            int32
	hits, expiry int64
	Tags         []string
}

// Under has unexported fields whose names start with an underscore.
type Under struct {
	Name  string
	_area int
	_tags []string
}

// Gen is generic and has an unexported field.
type Gen[T any] struct {
	V      T
	hidden int
	L      []T
}

// Ver has no methods; the Ver of the other package named ext declares Equal and Compare.
type Ver struct {
	Major int
	Note  string
}

type pointA struct{ X, Y int }

// PointA can be named from outside, its target cannot.
type PointA = pointA
`

const ext2Src = `package ext

type Pub struct {
	N string
	L []int
}

// Ver compares by Major only (pkg ext's Ver has no methods).
type Ver struct {
	Major int
	Note  string
}

func (v Ver) Equal(o Ver) bool { return v.Major == o.Major }

func (v Ver) Compare(o Ver) int {
	switch {
	case v.Major < o.Major:
		return -1
	case v.Major > o.Major:
		return 1
	}
	return 0
}

// Pt shares its printed name with the assignment-copyable ext.Pt of the
// other package named ext, but holds references.
type Pt struct {
	P *int
	Q []int
}
`

// sameSrc lives at example.com/v/same/p and declares package p, like the package that imports it.
const sameSrc = `package p

type Item struct {
	A int
	s []string
	L []int
}
`

// geoSrc lives at example.com/v/geo/v2 and declares package geo.
const geoSrc = `package geo

type Seg struct {
	A int
	B []string
}
`

func structTys() []*Ty {
	mk := func(name string, cmp bool, flags ...string) *Ty {
		t := &Ty{Expr: name, Kind: "struct", Comparable: cmp, Flags: map[string]bool{}}
		for _, f := range flags {
			t.Flags[f] = true
		}
		return t
	}
	return []*Ty{
		mk("Flat", true),
		mk("Heap", false),
		mk("Rec", false, "rec"),
		mk("Emb", false),
		mk("priv", false, "unexported", "localpriv"),
		mk("Fl", false, "float"),
		mk("UEq", true, "user"),
		mk("UEqV", true, "user"),
		mk("ext.Pub", false, "ext"),
		mk("ext.Priv", false, "ext", "unexported", "extpriv"),
		mk("ext.Cmp", true, "ext", "unexported", "extpriv"),
		mk("ext2.Pub", false, "ext2"),
		mk("ext.Pt", true, "ext"),
		mk("Two", false, "ext", "ext2"),
		mk("ext2.Pt", false, "ext2"),
		mk("Anon", false, "anon"),
		mk("Und", false, "unexported", "localpriv"),
		mk("Twin", false),
		mk("ext.Blank", false, "ext"),
		mk("ext.Sess", false, "ext", "unexported", "extpriv"),
		mk("ext.Under", false, "ext", "unexported", "extpriv"),
		mk("Vers", false, "ext", "ext2", "user"),
		mk("WrapUser", false, "user"),
		mk("SameName", false, "ext", "unexported", "extpriv", "samename"),
		mk("KeyMaps", false),
		mk("KMC", false),
		mk("KMD", false),
		mk("KMI8", false),
		mk("KMU16", false),
		mk("KMF32", false),
		mk("KMC64", false),
		mk("KMAB", false),
		mk("KMMS", false),
		mk("KMU", false),
		mk("KMR", false),
		mk("Box[int]", false, "generic"),
		mk("Box[Flat]", false, "generic"),
		mk("Box[[]string]", false, "generic"),
		mk("ext.Gen[string]", false, "ext", "unexported", "extpriv", "generic"),
		mk("Units", false),
		mk("Shape", false),
		mk("Pad", false, "unexported", "localpriv"),
		mk("ext.Win", true, "ext", "unexported", "extpriv"),
		mk("Wins", false, "ext", "unexported", "extpriv"),
		mk("ext.PointA", true, "ext", "alias"),
		mk("geo.Seg", false, "ext", "geo"),
		mk("Far", false, "ext", "geo"),
	}
}

func ptrOf(t *Ty) *Ty {
	return &Ty{Expr: "*" + t.Expr, Kind: "ptr", Elem: t, Depth: t.Depth + 1, Comparable: false, Flags: flagsOf(t)}
}
func sliceOf(t *Ty) *Ty {
	return &Ty{Expr: "[]" + t.Expr, Kind: "slice", Elem: t, Depth: t.Depth + 1, Flags: flagsOf(t)}
}
func arrOf(t *Ty) *Ty {
	return &Ty{Expr: "[2]" + t.Expr, Kind: "array", Elem: t, Depth: t.Depth + 1, Comparable: t.Comparable, Flags: flagsOf(t)}
}
func mapOf(k, v *Ty) *Ty {
	return &Ty{Expr: "map[" + k.Expr + "]" + v.Expr, Kind: "map", Key: k, Elem: v, Depth: v.Depth + 1, Flags: flagsOf(k, v)}
}
func nsliceOf(t *Ty) *Ty {
	n := "NS" + mangle(t.Expr)
	return &Ty{Expr: n, Kind: "nslice", Elem: t, Depth: t.Depth + 1, Flags: flagsOf(t), Decl: "type " + n + " []" + t.Expr}
}
func nmapOf(t *Ty) *Ty {
	n := "NM" + mangle(t.Expr)
	k := basicTy("string")
	return &Ty{Expr: n, Kind: "nmap", Key: k, Elem: t, Depth: t.Depth + 1, Flags: flagsOf(t), Decl: "type " + n + " map[string]" + t.Expr}
}

// mapKeys are the value key types of the grammar.
func mapKeys() []*Ty {
	nb := namedBasics()
	flat := structTys()[0]
	return []*Ty{basicTy("string"), basicTy("int"), nb[0], arrOf(basicTy("int")), flat}
}

// decls collects wrapper declarations needed by t.
func (t *Ty) decls(m map[string]string) {
	if t == nil {
		return
	}
	if t.Decl != "" {
		m[t.Expr] = t.Decl
	}
	t.Elem.decls(m)
	t.Key.decls(m)
}

// applyAll applies every constructor to every type in base.
func applyAll(base []*Ty, keys []*Ty, wrappers bool) []*Ty {
	var out []*Ty
	for _, t := range base {
		out = append(out, ptrOf(t), sliceOf(t), arrOf(t))
		for _, k := range keys {
			out = append(out, mapOf(k, t))
		}
		if wrappers {
			out = append(out, nsliceOf(t), nmapOf(t))
		}
	}
	return out
}

func leaves(basics []string) []*Ty {
	var out []*Ty
	for _, b := range basics {
		out = append(out, basicTy(b))
	}
	out = append(out, namedBasics()...)
	out = append(out, structTys()...)
	return out
}

// typesUpTo returns the grammar's types: depth 0 and 1 over the full basic
// alphabet; depth 2 (and 3 with the reduced alphabet) when asked.
func typesUpTo(depth int) []*Ty {
	seen := map[string]bool{}
	var out []*Ty
	add := func(ts []*Ty) {
		for _, t := range ts {
			if !seen[t.Expr] {
				seen[t.Expr] = true
				out = append(out, t)
			}
		}
	}
	l0 := leaves(allBasics)
	add(l0)
	if depth >= 1 {
		add(applyAll(l0, mapKeys(), true))
		// every comparable leaf as a map key (sorted-key walks branch per key kind)
		var extra []*Ty
		for _, k := range l0 {
			if k.Comparable && !k.has("user") {
				extra = append(extra, mapOf(k, basicTy("int")), mapOf(k, sliceOf(basicTy("string"))))
			}
		}
		add(extra)
	}
	if depth >= 2 {
		// every constructor over every depth-1 type of the full leaf alphabet
		r1 := applyAll(l0, mapKeys(), true)
		add(applyAll(r1, mapKeys(), true))
	}
	if depth >= 3 {
		red := reducedLeaves()
		keys := []*Ty{basicTy("string"), structTys()[0]}
		r1 := applyAll(red, keys, false)
		r2 := applyAll(r1, keys, false)
		add(r1)
		add(r2)
		add(applyAll(r2, keys, false))
	}
	return out
}

func reducedLeaves() []*Ty {
	st := structTys()
	byName := map[string]*Ty{}
	for _, s := range st {
		byName[s.Expr] = s
	}
	return []*Ty{basicTy("int"), sliceOf(basicTy("byte")), ptrOf(byName["Flat"]), byName["Rec"], byName["ext.Priv"]}
}

// depth2Selection is the quick-tier slice of depth 2: constructors over the
// depth-1 types of a few interesting leaves.
func depth2Selection() []*Ty {
	st := structTys()
	byName := map[string]*Ty{}
	for _, s := range st {
		byName[s.Expr] = s
	}
	base := []*Ty{basicTy("int"), basicTy("uint8"), basicTy("string"), basicTy("float64"), byName["Flat"], byName["Rec"], byName["ext.Priv"], byName["Heap"], byName["UEq"], byName["ext2.Pub"]}
	keys := []*Ty{basicTy("string"), byName["Flat"]}
	r1 := applyAll(base, keys, true)
	return applyAll(r1, keys, true)
}

// fieldForm wraps t as the single field of a generated named struct, passed by pointer.
func fieldForm(t *Ty) *Ty {
	n := "W" + mangle(t.Expr)
	w := &Ty{Expr: n, Kind: "struct", Elem: t, Depth: t.Depth, Comparable: false, Flags: flagsOf(t), Decl: "type " + n + " struct{ F " + t.Expr + " }"}
	w.Flags["wrapfield"] = true
	p := ptrOf(w)
	p.Depth = t.Depth
	return p
}

func sortTys(ts []*Ty) {
	sort.SliceStable(ts, func(i, j int) bool {
		if ts[i].Depth != ts[j].Depth {
			return ts[i].Depth < ts[j].Depth
		}
		return false
	})
}
