package main

import (
	"bufio"
	"encoding/json"
	"fmt"
	"os"
	"path/filepath"
	"regexp"
	"sort"
	"strings"
	"sync"
	"time"
)

func init() {
	checks["C19"] = func(tier string) {
		checkConc("C19", tier, []concPkg{
			{"c19a", "c19_user.go.txt", []string{"c19_main.go.txt", "c19_cfg_a.go.txt"}, ""},
			{"c19b", "c19b_user.go.txt", []string{"c19_main.go.txt", "c19_cfg_b.go.txt"}, ""},
		})
	}
	checks["C20"] = func(tier string) {
		checkConc("C20", tier, []concPkg{{"c20", "c20_user.go.txt", []string{"c20_main.go.txt"}, ""}})
	}
}

type concPkg struct {
	name    string
	user    string
	harness []string
	lang    string // "" or an older language version the generated file is compiled under
}

// withOldLoopVars adds, for every scenario package, the same exploration with
// the generated file compiled as go1.21 code.
func withOldLoopVars(pkgs []concPkg) []concPkg {
	out := append([]concPkg{}, pkgs...)
	for _, p := range pkgs {
		q := p
		q.name, q.lang = p.name+"-go121", "go1.21"
		out = append(out, q)
	}
	return out
}

func (p concPkg) suffix() string {
	if p.lang == "" {
		return ""
	}
	return " [" + p.lang + "]"
}

type mcViolation struct {
	What     string
	Schedule []int
	Trace    []string
}

type mcReport struct {
	Name        string
	Executions  int
	States      int
	Transitions int
	Terminal    int
	MaxDepth    int
	Violations  []mcViolation
	Exhaustive  bool
	Cap         string
	Outcomes    map[string]int
	WallS       float64
}

func harnessFile(n string) string {
	b, err := os.ReadFile(filepath.Join(verifDir, "harness", n))
	if err != nil {
		fatalInfra("harness source %s: %v", n, err)
	}
	return string(b)
}

func checkConc(prop, tier string, pkgs []concPkg) {
	rep := newReporter(prop, tier)
	pkgs = withOldLoopVars(pkgs)
	maxStates, budget := 400000, 900
	if tier == "thorough" {
		maxStates, budget = 3000000, 5400
	}
	var all []mcReport
	var mu sync.Mutex
	raceRuns := 0
	counts := map[string]int{}
	var pwg sync.WaitGroup
	for _, pk := range pkgs {
		pk := pk
		pwg.Add(1)
		go func() {
			defer pwg.Done()
			dir := filepath.Join(scratchDir, "e3a", pk.name)
			user := harnessFile(pk.user)
			bin, cnt, inconclusive, err := buildConcScenario(pk.name, user, "", pk.lang)
			_ = bin
			if inconclusive != "" {
				fmt.Println("INCONCLUSIVE: the generated code contains a construct the scheduler cannot own:", inconclusive)
				cleanup()
				os.Exit(3)
			}
			if err != nil {
				// the generator itself fails on the scenario package: that is a violation of the property's premise
				rep.Violation("scenario-package-not-generated|"+pk.name, err.Error(), map[string]interface{}{"engine": "e3a", "files": pkgFiles{"p/user.go": user}})
				return
			}
			mu.Lock()
			for k, v := range cnt {
				counts[k] += v
			}
			mu.Unlock()
			// supplementary pass for the data-race clause, concurrently with the exploration: the
			// same harness bodies and the uninstrumented generated code run free under the race
			// detector (sampling, labelled as such; it can only add a violation, never decide the
			// schedule clauses)
			raceDone := make(chan int, 1)
			go func() { raceDone <- racePass(rep, pk, user, tier) }()
			defer func() {
				n := <-raceDone
				mu.Lock()
				raceRuns += n
				mu.Unlock()
			}()
			// write the harness (several files) and build
			for i, h := range pk.harness {
				writeFile(filepath.Join(dir, fmt.Sprintf("h%d.go", i)), harnessFile(h))
			}
			b := run(dir, 10*time.Minute, nil, "go", "build", "-o", "explore.bin", ".")
			if b.Exit != 0 {
				// generated code that no longer compiles against the shim: report as a violation of the generated code only if it is not the harness
				if strings.Contains(b.Stderr, "p/derived.gen.go") && !strings.Contains(b.Stderr, "h0.go") && !strings.Contains(b.Stderr, "h1.go") {
					rep.Infra("instrumented generated code does not build: " + tail(b.Stderr, 1500))
				} else {
					rep.Infra("harness does not build: " + tail(b.Stderr, 1500))
				}
				return
			}
			shards := workers
			// the number of processors is owned too when the generated code asks for it:
			// explore with 1 and 2 in addition to the machine's value
			procsVals := []string{""}
			if cnt["procs"] > 0 {
				procsVals = []string{"", "1", "2"}
			}
			parDo(shards*len(procsVals), func(job int) {
				sh, pv := job%shards, procsVals[job/shards]
				var penv []string
				psuffix := ""
				if pv != "" {
					penv = []string{"VERIF_PROCS=" + pv}
					psuffix = " [GOMAXPROCS=" + pv + "]"
				}
				r := run(dir, time.Duration(budget+120)*time.Second, penv, filepath.Join(dir, "explore.bin"), tier, fmt.Sprint(sh), fmt.Sprint(shards), fmt.Sprint(maxStates), fmt.Sprint(budget))
				if r.Exit != 0 {
					rep.Infra(fmt.Sprintf("explorer %s shard %d: exit %d: %s", pk.name, sh, r.Exit, tail(r.Stderr, 800)))
					return
				}
				sc := bufio.NewScanner(strings.NewReader(r.Stdout))
				sc.Buffer(make([]byte, 1<<20), 1<<28)
				for sc.Scan() {
					var mr mcReport
					if err := json.Unmarshal(sc.Bytes(), &mr); err != nil {
						rep.Infra("bad explorer output: " + head(sc.Text(), 200))
						continue
					}
					mr.Name += pk.suffix() + psuffix
					mu.Lock()
					all = append(all, mr)
					mu.Unlock()
				}
			})
			removeAll(dir)
		}()
	}
	pwg.Wait()
	rep.Cov["race_detector_free_runs"] = raceRuns
	states, trans, execs, terminal := 0, 0, 0, 0
	exhaustive := true
	var capped []string
	outcomes := map[string]int{}
	sort.Slice(all, func(i, j int) bool { return all[i].Name < all[j].Name })
	for _, mr := range all {
		states += mr.States
		trans += mr.Transitions
		execs += mr.Executions
		terminal += mr.Terminal
		if !mr.Exhaustive {
			exhaustive = false
			capped = append(capped, mr.Name+" ("+mr.Cap+")")
		}
		for k, v := range mr.Outcomes {
			if k == "ok" {
				outcomes["ok"] += v
			} else {
				outcomes["violation"] += v
			}
		}
		for _, v := range mr.Violations {
			if strings.HasPrefix(v.What, "HARNESS:") {
				rep.Infra(mr.Name + ": " + v.What)
				continue
			}
			cfgClass := mr.Name
			if i := strings.IndexByte(cfgClass, ' '); i > 0 {
				cfgClass = cfgClass[:i]
			}
			clause := v.What
			if i := strings.IndexAny(clause, ":"); i > 0 {
				clause = clause[:i]
			}
			rep.Violation(fmt.Sprintf("%s|%s", cfgClass, normNumRe.ReplaceAllString(clause, "N")), fmt.Sprintf("configuration %s: %s; schedule (choice indices) %v", mr.Name, v.What, v.Schedule),
				map[string]interface{}{"engine": "e3a", "configuration": mr.Name, "schedule": v.Schedule, "trace": v.Trace, "what": v.What})
		}
	}
	for i, mr := range all {
		if i%(len(all)/6+1) == 0 {
			rep.Sample(map[string]interface{}{"configuration": mr.Name, "states": mr.States, "transitions": mr.Transitions, "executions": mr.Executions, "max_choice_depth": mr.MaxDepth})
		}
	}
	rep.Cov["states"] = states
	rep.Cov["transitions"] = trans
	rep.Cov["traces_validated_against_impl"] = execs
	rep.Cov["evaluations"] = execs
	rep.Cov["executions"] = execs
	rep.Cov["terminal_states_checked"] = terminal
	rep.Cov["distinct_nontrivial"] = states
	rep.Cov["configurations"] = len(all)
	rep.Cov["distinct_outcomes"] = outcomes
	rep.Cov["instrumented_operations"] = counts
	rep.Cov["exhaustive"] = exhaustive
	rep.Cov["capped_configurations"] = capped
	if prop == "C19" {
		rep.Cov["rule"] = "state = global state of one configuration under the cooperative scheduler (per-goroutine observation-history hash and pending operation, channel contents and closed flags, WaitGroup counters); transition = one channel/WaitGroup/go/select step of the real generated code (derived.gen.go of the working tree, instrumented at check time by an AST rewrite onto the mc shim); stateless DFS by replay with a visited set explores all interleavings, unbounded in preemptions; oracle on every terminal state: no shim panic (send on closed channel, double close), output closed exactly once, delivered multiset == sent, per-input order (total order for Fmap/Dup), no deadlock, no goroutine left behind, f applied once per item; a new violation's schedule is replayed once and must reproduce; every configuration is explored twice: with the generated file compiled under the scenario module's language version (go 1.24) and as go1.21 code (loop variables shared between iterations, as in a user module that still declares go 1.21); configurations: Fmap and Dup with 0..3 items x capacities 0..2; the four channel-of-channels / slice forms and the variadic form of Join with 2..3 inputs x item vectors x capacities 0..1 x live producers or pre-filled closed inputs (x outer capacity 0..1); Pipeline with f and g emitting 0..2 items"
	} else {
		rep.Cov["rule"] = "state/transition as for C19 (also both language versions); configurations: deriveDo with n = 2..4 functions x failing subsets x dependency patterns (independent; f_i hands a value to f_j over an unbuffered channel for every ordered pair; chain; reverse chain), a scheduling point at entry and exit of every function; oracle on every terminal state: Do returned (no deadlock), only after every function returned, value i is f_i's, error nil iff no function failed and otherwise one of the injected errors, nothing left blocked"
	}
	rep.Cov["bound"] = fmt.Sprintf("%d configurations; state cap %d per configuration", len(all), maxStates)
	rep.Assume = append(rep.Assume, "data-race freedom is outside this technique: a cooperative scheduler serialises goroutines; the mc shim's channel semantics (Go spec) are trusted", "no two goroutines of the generated code communicate through unsynchronised shared variables other than via the channel/WaitGroup operations observed (validates state merging)")
	if len(all) == 0 {
		rep.Infra("no configuration explored")
	}
	rep.Finish()
}

var raceFuncRe = regexp.MustCompile(`example\.com/v/p\.(derive[A-Za-z]+)`)

// racePass builds the scenario without instrumentation and with -race and runs
// every configuration free a few times.
func racePass(rep *Reporter, pk concPkg, user, tier string) int {
	dir := filepath.Join(scratchDir, "e3a", pk.name+"-race")
	writePkg(dir, pkgFiles{
		"go.mod":    "module example.com/v\n\ngo 1.24\n\nrequire verifrt v0.0.0\n\nreplace verifrt => " + filepath.Join(verifDir, "rt") + "\n",
		"p/user.go": user,
	})
	defer removeAll(dir)
	if g := run(dir, 3*time.Minute, nil, buildGoderive(), "./p"); g.Exit != 0 {
		return 0
	}
	if pk.lang != "" {
		gp := filepath.Join(dir, "p", "derived.gen.go")
		writeFile(gp, langConstraint(pk.lang)+readFileOr(gp, ""))
	}
	for i, h := range pk.harness {
		writeFile(filepath.Join(dir, fmt.Sprintf("h%d.go", i)), harnessFile(h))
	}
	b := run(dir, 15*time.Minute, []string{"CGO_ENABLED=1"}, "go", "build", "-race", "-o", "race.bin", ".")
	if b.Exit != 0 {
		// the race detector is supplementary: if it cannot be built here, say so and go on
		rep.Cov["race_pass_note"] = "race build failed: " + head(firstErrorLine(b.Stderr), 200)
		return 0
	}
	reps := 2
	if tier == "thorough" {
		reps = 25
	}
	runs := 0
	var mu sync.Mutex
	shards := workers
	parDo(shards, func(sh int) {
		r := run(dir, 20*time.Minute, []string{"GOMAXPROCS=4", "GORACE=halt_on_error=0"}, filepath.Join(dir, "race.bin"), tier, fmt.Sprint(sh), fmt.Sprint(shards), fmt.Sprint(reps), "0", "race")
		mu.Lock()
		runs++
		mu.Unlock()
		if strings.Contains(r.Stderr, "DATA RACE") {
			fn := "generated code"
			if m := raceFuncRe.FindStringSubmatch(r.Stderr); m != nil {
				fn = normNumRe.ReplaceAllString(m[1], "")
			}
			i := strings.Index(r.Stderr, "WARNING: DATA RACE")
			// the two access stacks of the first report; a race in which neither access
			// happens in (or below) the generated file is a defect of the harness
			inGenerated := false
			for _, blk := range strings.Split(r.Stderr[i:], "\n\n") {
				t := strings.TrimSpace(blk)
				if strings.HasPrefix(t, "WARNING: DATA RACE") {
					t = strings.TrimSpace(strings.TrimPrefix(t, "WARNING: DATA RACE"))
				}
				if strings.HasPrefix(t, "Read at") || strings.HasPrefix(t, "Write at") || strings.HasPrefix(t, "Previous read at") || strings.HasPrefix(t, "Previous write at") ||
					strings.HasPrefix(t, "Atomic") || strings.HasPrefix(t, "Previous atomic") {
					if strings.Contains(t, "derived.gen.go") {
						inGenerated = true
					}
				}
				if strings.HasPrefix(t, "Goroutine ") {
					break
				}
			}
			if !inGenerated {
				rep.Infra("the race detector reports a data race between harness goroutines (no access inside derived.gen.go): " + head(r.Stderr[i:], 600))
				return
			}
			rep.Violation("data-race|"+fn, "the race detector reports a data race in a free run of the generated code: "+head(r.Stderr[i:], 1500),
				map[string]interface{}{"engine": "e3a-race", "package": pk.name, "report": head(r.Stderr[i:], 4000)})
		}
		sc := bufio.NewScanner(strings.NewReader(r.Stdout))
		sc.Buffer(make([]byte, 1<<20), 1<<26)
		for sc.Scan() {
			var m struct {
				Name     string
				Problems []string
			}
			if json.Unmarshal(sc.Bytes(), &m) == nil && len(m.Problems) > 0 {
				cls := m.Name
				if i := strings.IndexByte(cls, ' '); i > 0 {
					cls = cls[:i]
				}
				clause := m.Problems[0]
				if i := strings.IndexByte(clause, ':'); i > 0 {
					clause = clause[:i]
				}
				rep.Violation("free-run|"+cls+"|"+normNumRe.ReplaceAllString(clause, "N"), fmt.Sprintf("free run (native runtime) of configuration %s%s: %s", m.Name, pk.suffix(), strings.Join(m.Problems, "; ")),
					map[string]interface{}{"engine": "e3a-race", "configuration": m.Name + pk.suffix()})
			}
		}
	})
	return runs
}

// replayE3a re-runs one recorded schedule of one configuration on the
// generated code of the current tree, twice, without any exploration.
func replayE3a(prop string, rec map[string]interface{}) {
	cfg := str(rec, "configuration")
	var sched []string
	if xs, ok := rec["schedule"].([]interface{}); ok {
		for _, x := range xs {
			sched = append(sched, fmt.Sprint(x))
		}
	}
	pkgs := []concPkg{{"c19a", "c19_user.go.txt", []string{"c19_main.go.txt", "c19_cfg_a.go.txt"}, ""}, {"c19b", "c19b_user.go.txt", []string{"c19_main.go.txt", "c19_cfg_b.go.txt"}, ""}}
	if prop == "C20" {
		pkgs = []concPkg{{"c20", "c20_user.go.txt", []string{"c20_main.go.txt"}, ""}}
	}
	reproduced := false
	old := strings.HasSuffix(cfg, " [go1.21]")
	cfg = strings.TrimSuffix(cfg, " [go1.21]")
	for _, pk := range pkgs {
		if old {
			pk.lang = "go1.21"
		}
		if prop == "C19" && (strings.HasPrefix(cfg, "JoinBR") != (pk.name == "c19b")) {
			continue
		}
		dir := filepath.Join(scratchDir, "e3a", pk.name)
		_, _, inconclusive, err := buildConcScenario(pk.name, harnessFile(pk.user), "", pk.lang)
		if inconclusive != "" || err != nil {
			fmt.Println("cannot build the scenario:", inconclusive, err)
			cleanup()
			os.Exit(2)
		}
		for i, h := range pk.harness {
			writeFile(filepath.Join(dir, fmt.Sprintf("h%d.go", i)), harnessFile(h))
		}
		if b := run(dir, 10*time.Minute, nil, "go", "build", "-o", "explore.bin", "."); b.Exit != 0 {
			fmt.Println("harness does not build:", tail(b.Stderr, 800))
			cleanup()
			os.Exit(2)
		}
		r := run(dir, 5*time.Minute, nil, filepath.Join(dir, "explore.bin"), "replay", cfg, strings.Join(sched, ","))
		var first string
		for i, l := range strings.Split(strings.TrimSpace(r.Stdout), "\n") {
			var m struct {
				Trace    []string
				Problems []string
				Diverged bool
			}
			if json.Unmarshal([]byte(l), &m) != nil {
				continue
			}
			obs := strings.Join(m.Trace, " / ") + " => " + strings.Join(m.Problems, "; ")
			if i == 0 {
				first = obs
				fmt.Printf("  schedule %v\n  trace: %s\n  oracle: %v\n", sched, strings.Join(m.Trace, " / "), m.Problems)
			} else if obs != first {
				fmt.Println("  second replay of the same schedule differs: nondeterminism outside the scheduler")
				cleanup()
				os.Exit(2)
			}
			if len(m.Problems) > 0 && !m.Diverged {
				reproduced = true
			}
		}
	}
	cleanup()
	if reproduced {
		fmt.Printf("REPRODUCED property=%s configuration=%q\n", prop, cfg)
		os.Exit(1)
	}
	fmt.Println("NOT REPRODUCED (the recorded schedule runs without violation on the current tree)")
	os.Exit(0)
}
