package main

import (
	"fmt"
	"go/ast"
	"go/parser"
	"go/token"
	"go/types"
	"os"
	"path/filepath"
	"sort"
	"strings"
	"time"
)

// ---- the seam injected into the generator -----------------------------------

const mcrtImportPath = "github.com/awalterschulze/goderive/derive/mcrt"

const mcrtSrc = `// Package mcrt is injected by /verif (go build -overlay) only: it puts every
// map iteration of the generator under the control of an explorer.
package mcrt

import (
	"fmt"
	"iter"
	"sort"
)

// Chooser decides which of the n remaining keys comes next (0 = sorted order).
type Chooser interface {
	Choose(n int, site string) int
}

// C is the active chooser; nil means sorted order.
var C Chooser

// Scope is the directory below which the loader's file parse order is chosen by C.
var Scope string

func keyStr(k any) string {
	switch x := k.(type) {
	case string:
		return x
	case fmt.Stringer:
		return x.String()
	case interface{ Path() string }:
		return x.Path()
	}
	return fmt.Sprintf("%v", k)
}

// Iter ranges over m in an order chosen step by step by C.
func Iter[M ~map[K]V, K comparable, V any](m M, site string) iter.Seq2[K, V] {
	return func(yield func(K, V) bool) {
		keys := make([]K, 0, len(m))
		for k := range m {
			keys = append(keys, k)
		}
		sort.Slice(keys, func(i, j int) bool { return keyStr(keys[i]) < keyStr(keys[j]) })
		for len(keys) > 0 {
			c := 0
			if C != nil && len(keys) > 1 {
				c = C.Choose(len(keys), site)
			}
			k := keys[c]
			keys = append(keys[:c], keys[c+1:]...)
			v, ok := m[k]
			if !ok {
				continue
			}
			if !yield(k, v) {
				return
			}
		}
	}
}

// Order returns xs in an order chosen by C (documented as unspecified by its producer).
func Order[T any](xs []T, key func(T) string, site string) []T {
	rest := append([]T(nil), xs...)
	sort.SliceStable(rest, func(i, j int) bool { return key(rest[i]) < key(rest[j]) })
	out := make([]T, 0, len(rest))
	for len(rest) > 0 {
		c := 0
		if C != nil && len(rest) > 1 {
			c = C.Choose(len(rest), site)
		}
		out = append(out, rest[c])
		rest = append(rest[:c], rest[c+1:]...)
	}
	return out
}
`

const loaderSeamSrc = `

// McrtFileOrder, when set, decides the order in which the n files of the
// package in dir are parsed (and so given their position bases).
var McrtFileOrder func(dir string, n int) []int

func mcrtFileOrder(dir string, n int) []int {
	if McrtFileOrder != nil {
		return McrtFileOrder(dir, n)
	}
	order := make([]int, n)
	for i := range order {
		order[i] = i
	}
	return order
}
`

// explore.go of the library driver (E3b)
const libdrvExplore = `package main

import (
	"crypto/sha256"
	"encoding/hex"
	"encoding/json"
	"fmt"
	"os"
	"path/filepath"
	"strconv"
	"strings"
	"time"

	"github.com/awalterschulze/goderive/derive"
	"` + mcrtImportPath + `"
	"golang.org/x/tools/go/loader"
)

func init() {
	loader.McrtFileOrder = func(dir string, n int) []int {
		order := make([]int, n)
		for i := range order {
			order[i] = i
		}
		s := mcrt.Scope
		if mcrt.C == nil || s == "" || !strings.HasPrefix(dir, s) {
			return order
		}
		return mcrt.Order(order, func(i int) string { return strconv.Itoa(1000000 + i) }, "x/tools/go/loader/util.go:parseFiles")
	}
}

type point struct {
	N      int
	Site   string
	Choice int
}

type chooser struct {
	prefix []int
	trace  []point
	diverged string
}

func (c *chooser) Choose(n int, site string) int {
	ch := 0
	if i := len(c.trace); i < len(c.prefix) {
		ch = c.prefix[i]
		if ch >= n {
			if c.diverged == "" {
				c.diverged = fmt.Sprintf("replayed choice %d at point %d (%s) but only %d alternatives exist", ch, i, site, n)
			}
			ch = 0
		}
	}
	c.trace = append(c.trace, point{n, site, ch})
	return ch
}

type outcome struct {
	Sha     string
	Choices []int
	Sites   []string
	Count   int
	Files   map[string]string
}

type report struct {
	Executions   int
	Bound        int
	BoundDone    int
	MaxPoints    int
	Outputs      []*outcome
	Sites        map[string]int
	Divergences  []string
	ReplayChecks int
	Error        string
	Capped       bool
	WallS        float64
}

// explore <bound> <maxexec> <autoname> <dedup> <maxseconds> <root dir> <paths...>
func explore(args []string) {
	bound, _ := strconv.Atoi(args[0])
	maxExec, _ := strconv.Atoi(args[1])
	autoname, dedup := args[2] == "true", args[3] == "true"
	maxSec, _ := strconv.Atoi(args[4])
	root := args[5]
	paths := args[6:]
	rep := &report{Bound: bound, Sites: map[string]int{}}
	t0 := time.Now()
	defer func() {
		rep.WallS = time.Since(t0).Seconds()
		json.NewEncoder(os.Stdout).Encode(rep)
	}()
	if err := os.Chdir(root); err != nil {
		rep.Error = err.Error()
		return
	}
	load := func() (derive.Program, error) {
		// MCRT_PLUGINPREFIX carries -pluginprefix overrides (k=v,...)
		return derive.NewPlugins(ordered("", os.Getenv("MCRT_PLUGINPREFIX")), autoname, dedup).Load(derive.ImportPaths(paths))
	}
	if abs, err := filepath.EvalSymlinks(root); err == nil {
		mcrt.Scope = abs
	} else {
		mcrt.Scope = root
	}
	reload := os.Getenv("MCRT_RELOAD") == "1"
	prog, err := load()
	if err != nil {
		rep.Error = "load: " + err.Error()
		return
	}
	// all derived.gen.go files below root are the observation
	observe := func() (string, map[string]string) {
		files := map[string]string{}
		filepath.Walk(root, func(p string, info os.FileInfo, err error) error {
			if err == nil && !info.IsDir() && info.Name() == "derived.gen.go" {
				b, _ := os.ReadFile(p)
				rel, _ := filepath.Rel(root, p)
				files[rel] = string(b)
			}
			return nil
		})
		h := sha256.New()
		names := make([]string, 0, len(files))
		for n := range files {
			names = append(names, n)
		}
		sortStrings(names)
		for _, n := range names {
			fmt.Fprintf(h, "%s\x00%s\x00", n, files[n])
		}
		return hex.EncodeToString(h.Sum(nil))[:16], files
	}
	clean := func() {
		filepath.Walk(root, func(p string, info os.FileInfo, err error) error {
			if err == nil && !info.IsDir() && info.Name() == "derived.gen.go" {
				os.Remove(p)
			}
			return nil
		})
	}
	bySha := map[string]*outcome{}
	runOnce := func(prefix []int) (*chooser, string, map[string]string, error) {
		clean()
		c := &chooser{prefix: prefix}
		mcrt.C = c
		var err error
		if reload {
			// the first load is part of the execution (file parse order)
			prog, err = load()
		}
		if err == nil {
			err = prog.Generate()
		}
		mcrt.C = nil
		sha, files := observe()
		if err != nil {
			sha = "error:" + err.Error()
		}
		return c, sha, files, nil
	}
	var dfs func(prefix []int, bound int)
	dfs = func(prefix []int, bound int) {
		if (maxExec > 0 && rep.Executions >= maxExec) || (maxSec > 0 && time.Since(t0) > time.Duration(maxSec)*time.Second) {
			rep.Capped = true
			return
		}
		c, sha, files, _ := runOnce(prefix)
		rep.Executions++
		if c.diverged != "" {
			rep.Divergences = append(rep.Divergences, c.diverged)
			return
		}
		if len(c.trace) > rep.MaxPoints {
			rep.MaxPoints = len(c.trace)
		}
		choices := make([]int, len(c.trace))
		sites := make([]string, len(c.trace))
		for i, p := range c.trace {
			choices[i] = p.Choice
			sites[i] = p.Site
			if len(prefix) == 0 {
				rep.Sites[p.Site]++
			}
		}
		o, ok := bySha[sha]
		if !ok {
			o = &outcome{Sha: sha, Choices: choices, Sites: sites, Files: files}
			bySha[sha] = o
			rep.Outputs = append(rep.Outputs, o)
			// a new observation must be reproducible: replay the same schedule
			c2, sha2, _, _ := runOnce(choices)
			rep.ReplayChecks++
			if sha2 != sha || len(c2.trace) != len(c.trace) {
				rep.Divergences = append(rep.Divergences, fmt.Sprintf("schedule %v gave %s, then %s on replay", choices, sha, sha2))
			}
		}
		o.Count++
		dev := 0
		for i := 0; i < len(c.trace); i++ {
			if i < len(prefix) {
				if choices[i] != 0 {
					dev++
				}
				continue
			}
			if dev+1 > bound {
				break // every later alternative costs one more deviation as well
			}
			for alt := 1; alt < c.trace[i].N; alt++ {
				np := append(append([]int(nil), choices[:i]...), alt)
				dfs(np, bound)
			}
		}
	}
	dfs(nil, bound)
	if !rep.Capped {
		rep.BoundDone = bound
	}
	clean()
	_ = strings.Join
}

func sortStrings(a []string) {
	for i := 1; i < len(a); i++ {
		for j := i; j > 0 && a[j] < a[j-1]; j-- {
			a[j], a[j-1] = a[j-1], a[j]
		}
	}
}
`

// ---- rewriter -----------------------------------------------------------------

type rewriteStats struct {
	Files      int
	MapRanges  int
	OrderCalls int
	Sites      []string
	Unownable  []string
}

// buildMapOrderOverlay rewrites every map range (and InitialPackages call) of
// the generator sources of the working tree and returns the overlay.
func buildMapOrderOverlay() (map[string]string, *rewriteStats, error) {
	st := &rewriteStats{}
	overlay := map[string]string{}
	outDir := filepath.Join(scratchDir, "overlay")
	// packages: derive, plugin/*, main
	var dirs []string
	dirs = append(dirs, filepath.Join(repoDir, "derive"))
	ents, _ := os.ReadDir(filepath.Join(repoDir, "plugin"))
	for _, e := range ents {
		if e.IsDir() {
			dirs = append(dirs, filepath.Join(repoDir, "plugin", e.Name()))
		}
	}
	dirs = append(dirs, repoDir)
	cwd, _ := os.Getwd()
	if err := os.Chdir(repoDir); err != nil {
		return nil, nil, err
	}
	defer os.Chdir(cwd)
	local := map[string]*types.Package{}
	for _, dir := range dirs {
		fset := token.NewFileSet()
		ents, err := os.ReadDir(dir)
		if err != nil {
			return nil, nil, err
		}
		var files []*ast.File
		var names []string
		srcs := map[string][]byte{}
		for _, e := range ents {
			n := e.Name()
			if e.IsDir() || !strings.HasSuffix(n, ".go") || strings.HasSuffix(n, "_test.go") {
				continue
			}
			p := filepath.Join(dir, n)
			b, err := os.ReadFile(p)
			if err != nil {
				return nil, nil, err
			}
			f, err := parser.ParseFile(fset, p, b, parser.ParseComments)
			if err != nil {
				return nil, nil, fmt.Errorf("parse %s: %v", p, err)
			}
			files = append(files, f)
			names = append(names, p)
			srcs[p] = b
		}
		if len(files) == 0 {
			continue
		}
		info := &types.Info{Types: map[ast.Expr]types.TypeAndValue{}}
		var terrs []string
		conf := types.Config{Importer: lockedImporter{local}, Error: func(err error) { terrs = append(terrs, err.Error()) }}
		rel, _ := filepath.Rel(repoDir, dir)
		ipath := "github.com/awalterschulze/goderive"
		if rel != "." {
			ipath += "/" + filepath.ToSlash(rel)
		}
		pkg, _ := conf.Check(ipath, fset, files, info)
		if len(terrs) > 0 {
			return nil, nil, fmt.Errorf("type-checking %s: %s", ipath, shortErrs(terrs))
		}
		local[ipath] = pkg
		for fi, f := range files {
			path := names[fi]
			src := srcs[path]
			type repl struct {
				from, to int
				text     string
			}
			var repls []repl
			relFile, _ := filepath.Rel(repoDir, path)
			ast.Inspect(f, func(n ast.Node) bool {
				switch x := n.(type) {
				case *ast.GoStmt:
					st.Unownable = append(st.Unownable, fmt.Sprintf("%s: go statement", fset.Position(x.Pos())))
				case *ast.SelectStmt:
					st.Unownable = append(st.Unownable, fmt.Sprintf("%s: select statement", fset.Position(x.Pos())))
				case *ast.RangeStmt:
					tv, ok := info.Types[x.X]
					if !ok {
						return true
					}
					if _, isMap := tv.Type.Underlying().(*types.Map); isMap {
						site := fmt.Sprintf("%s:%d", filepath.ToSlash(relFile), fset.Position(x.Pos()).Line)
						a, b := fset.Position(x.X.Pos()).Offset, fset.Position(x.X.End()).Offset
						repls = append(repls, repl{a, b, fmt.Sprintf("mcrt.Iter(%s, %q)", src[a:b], site)})
						st.MapRanges++
						st.Sites = append(st.Sites, site)
					}
				case *ast.CallExpr:
					if sel, ok := x.Fun.(*ast.SelectorExpr); ok && sel.Sel.Name == "InitialPackages" && len(x.Args) == 0 {
						site := fmt.Sprintf("%s:%d", filepath.ToSlash(relFile), fset.Position(x.Pos()).Line)
						a, b := fset.Position(x.Pos()).Offset, fset.Position(x.End()).Offset
						repls = append(repls, repl{a, b, fmt.Sprintf("mcrt.Order(%s, func(p *loader.PackageInfo) string { return p.Pkg.Path() }, %q)", src[a:b], site)})
						st.OrderCalls++
						st.Sites = append(st.Sites, site)
					}
				}
				return true
			})
			for _, im := range f.Imports {
				switch strings.Trim(im.Path.Value, `"`) {
				case "time", "math/rand", "math/rand/v2", "sync/atomic":
					st.Unownable = append(st.Unownable, fmt.Sprintf("%s imports %s", relFile, im.Path.Value))
				}
			}
			if len(repls) == 0 {
				continue
			}
			sort.Slice(repls, func(i, j int) bool { return repls[i].from > repls[j].from })
			out := append([]byte(nil), src...)
			for _, r := range repls {
				out = append(out[:r.from], append([]byte(r.text), out[r.to:]...)...)
			}
			// add the import right after the package clause
			pe := fset.Position(f.Name.End()).Offset
			out = append(out[:pe], append([]byte("\n\nimport mcrt \""+mcrtImportPath+"\"\n"), out[pe:]...)...)
			op := filepath.Join(outDir, strings.ReplaceAll(relFile, string(filepath.Separator), "__"))
			writeFile(op, string(out))
			overlay[path] = op
			st.Files++
		}
	}
	// the loader parses the files of a package in concurrent goroutines, and a file's
	// position base is fixed when its parse starts: replace the goroutines by a
	// sequential parse in an order the explorer chooses (packages below mcrt.Scope only)
	if ld := run(repoDir, time.Minute, nil, "go", "list", "-f", "{{.Dir}}", "golang.org/x/tools/go/loader"); ld.Exit == 0 {
		ldir := strings.TrimSpace(ld.Stdout)
		usrc, err := os.ReadFile(filepath.Join(ldir, "util.go"))
		if err != nil {
			return nil, nil, err
		}
		u := string(usrc)
		for _, r := range [][2]string{
			{"\tfor i, file := range files {\n\t\tif !buildutil.IsAbsPath(ctxt, file) {", "\tfor _, i := range mcrtFileOrder(dir, len(files)) {\n\t\tfile := files[i]\n\t\tif !buildutil.IsAbsPath(ctxt, file) {"},
			{"\t\tgo func(i int, file string) {", "\t\tfunc(i int, file string) {"},
		} {
			if strings.Count(u, r[0]) != 1 {
				return nil, nil, fmt.Errorf("loader/util.go does not have the expected shape (%q)", r[0])
			}
			u = strings.Replace(u, r[0], r[1], 1)
		}
		u += loaderSeamSrc
		up := filepath.Join(outDir, "loader__util.go")
		writeFile(up, u)
		overlay[filepath.Join(ldir, "util.go")] = up
		st.Sites = append(st.Sites, "x/tools/go/loader/util.go:parseFiles")
		st.OrderCalls++
	} else {
		return nil, nil, fmt.Errorf("cannot locate golang.org/x/tools/go/loader: %s", tail(ld.Stderr, 300))
	}
	mp := filepath.Join(outDir, "mcrt.go")
	writeFile(mp, mcrtSrc)
	overlay[filepath.Join(repoDir, "derive", "mcrt", "mcrt.go")] = mp
	sort.Strings(st.Sites)
	return overlay, st, nil
}
