package main

import (
	"encoding/json"
	"fmt"
	"os"
	"path/filepath"
	"regexp"
	"sort"
	"strings"
	"time"
)

func init() {
	checks["C02"] = func(tier string) { checkRec("C02", tier) }
	checks["C03"] = func(tier string) { checkRec("C03", tier) }
	checks["C04"] = func(tier string) { checkRec("C04", tier) }
	checks["C05"] = func(tier string) { checkRec("C05", tier) }
}

// recTypes returns the program alphabet of the recursive-plugin properties.
func recTypes(tier string) (ts []*Ty, bound string) {
	if tier == "thorough" {
		return typesUpTo(3), "all types of constructor depth <= 2 over the full leaf alphabet (every basic kind, named basics, 14 named structs), depth 3 over the reduced alphabet; top-level and field form"
	}
	ts = typesUpTo(1)
	seen := map[string]bool{}
	for _, t := range ts {
		seen[t.Expr] = true
	}
	for _, t := range depth2Selection() {
		if !seen[t.Expr] {
			seen[t.Expr] = true
			ts = append(ts, t)
		}
	}
	return ts, "all types of constructor depth <= 1 over the full basic alphabet, plus depth 2 over {int,uint8,string,float64,Flat,Rec,ext.Priv,Heap,UEq,ext2.Pub} with keys {string,Flat}; top-level and field form"
}

func rolesFor(prop string, t *Ty) []string {
	switch prop {
	case "C02":
		return []string{"equal", "equalc"}
	case "C03":
		return []string{"compare", "comparec", "equal"}
	case "C04":
		if t.has("anon") {
			return []string{"hash", "equal"} // DeepCopy refuses anonymous struct fields
		}
		return []string{"hash", "equal", "clone"}
	case "C05":
		switch t.Kind {
		case "ptr", "slice", "map", "nslice", "nmap":
			return []string{"deepcopy", "clone"}
		}
		return []string{"clone"}
	}
	return nil
}

func buildRecCases(prop, tier string) ([]*e1Case, string) {
	ts, bound := recTypes(tier)
	var cases []*e1Case
	n := 0
	add := func(t *Ty) {
		if t.has("anon") && prop != "C02" && prop != "C04" {
			return // anonymous struct fields: Equal and Hash only
		}
		if t.has("alias") && prop != "C05" {
			return // alias of an unexported struct: DeepCopy/Clone and GoString only
		}
		n++
		cases = append(cases, &e1Case{ID: fmt.Sprintf("c%d", n), Ty: t, Roles: rolesFor(prop, t)})
	}
	for _, t := range ts {
		add(t)
	}
	for _, t := range ts {
		add(fieldForm(t))
	}
	return cases, bound
}

var recRules = map[string]string{
	"C02": "state = ordered pair of pool values of one type case (pool: boundary-biased, bounded-exhaustive, fresh memory per use); transition = one call of generated Equal / curried Equal checked against the structural reference (and reflect.DeepEqual where no user methods); non-trivial = distinct structural classes in the pool + pairs of different generators judged equal",
	"C03": "state = ordered pair (for range/antisymmetry/zero-iff-Equal/natural order/curried) or ordered triple (transitivity) of pool values; transition = one call of generated Compare; non-trivial = pairs differing in exactly one position whose natural order was checked",
	"C04": "state = unordered pair of pool values; transition = one call of generated Hash; non-trivial = pairs judged equal by generated Equal and by the structural reference whose hashes were compared; harness executed in two processes and complete hash tables compared",
	"C05": "state = (source, prior destination) pair per entry shape, or source for Clone; transition = one DeepCopy/Clone call followed by equality, source-unchanged, memory-disjointness and mutation-isolation oracles; non-trivial = pairs with source != prior destination plus clones",
}

func checkRec(prop, tier string) {
	rep := newReporter(prop, tier)
	cases, bound := buildRecCases(prop, tier)
	env := []string{}
	if tier == "thorough" && prop == "C03" {
		env = append(env, "VERIF_VMAX=40", "VERIF_ELEMK=3", "VERIF_FUEL=4") // all triples: keep the pools smaller
	} else if tier == "thorough" {
		env = append(env, "VERIF_VMAX=64", "VERIF_ELEMK=4", "VERIF_FUEL=5")
	} else {
		env = append(env, "VERIF_VMAX=24", "VERIF_ELEMK=3", "VERIF_FUEL=4")
	}
	runs := 1
	if prop == "C04" {
		runs = 2 // two processes: map iteration is re-randomised per process
	}
	res := runE1(cases, prop, 48, env, runs)
	aggregateE1(rep, prop, cases, res, bound, recRules[prop])
	if prop == "C04" {
		crossProcessTables(rep, res)
	}
	rep.Finish()
}

// aggregateE1 turns harness records into violations and coverage.
func aggregateE1(rep *Reporter, prop string, cases []*e1Case, res *e1Result, bound, rule string) {
	for _, e := range res.HarnessErr {
		rep.Infra(e)
	}
	states, evals, nontriv, poolSum := 0, 0, 0, 0
	outcomes := map[string]int{}
	casesRun := map[string]bool{}
	skipped := 0
	for _, m := range res.Records {
		switch m["k"] {
		case "harness-error":
			rep.Infra(fmt.Sprintf("case %v (%v): %v\n%v", m["case"], m["type"], m["err"], m["stack"]))
		case "stat":
			if num(m, "run") != 0 {
				continue
			}
			casesRun[str(m, "case")] = true
			states += num(m, "states")
			evals += num(m, "evals")
			nontriv += num(m, "nontriv")
			poolSum += num(m, "pool")
			if oc, ok := m["outcomes"].(map[string]interface{}); ok {
				for k, v := range oc {
					if f, ok := v.(float64); ok {
						outcomes[k] += int(f)
					}
				}
			}
			if s := str(m, "sample"); s != "" {
				rep.Sample(map[string]string{"type": str(m, "type"), "case": s})
			}
			if str(m, "skipped") != "" {
				skipped++
			}
		case "viol":
			if num(m, "run") != 0 {
				continue
			}
			key := str(m, "key")
			what := fmt.Sprintf("%s on %s: %s; inputs %v (x%d)", str(m, "clause"), str(m, "type"), str(m, "detail"), m["inputs"], num(m, "count"))
			rep.Violation(key, what, map[string]interface{}{"engine": "e1", "case": m["case"], "type": m["type"], "clause": m["clause"], "detail": m["detail"], "inputs": m["inputs"], "files": m["_files"], "harness_args": []string{prop, str(m, "case")}})
		}
	}
	// cases whose package could not be generated/compiled are C01's matter
	excl := []string{}
	for _, f := range res.Failures {
		excl = append(excl, fmt.Sprintf("%s [%s] %s", caseLabel(f.Case), f.Phase, head(firstErrorLine(f.Output), 160)))
		if failuresAreViolations[prop] {
			norm := normErr(firstErrorLine(f.Output))
			if fk := failKey[prop]; fk != nil {
				norm = fk(f)
			}
			label := caseLabel(f.Case)
			if len(f.Together) > 0 {
				label = fmt.Sprintf("only when these %d programs share a package (each half of the batch is fine alone): %s", len(f.Together), head(strings.Join(f.Together, " + "), 600))
			}
			rep.Violation("does-not-"+f.Phase+"|"+norm, fmt.Sprintf("%s: goderive output for this case does not %s: %s", label, f.Phase, head(firstErrorLine(f.Output), 300)),
				map[string]interface{}{"engine": "e1", "phase": f.Phase, "output": tail(f.Output, 3000), "files": f.Files, "together": f.Together})
		}
	}
	sort.Strings(excl)
	rep.Cov["states"] = states
	rep.Cov["transitions"] = evals
	rep.Cov["traces_validated_against_impl"] = evals
	rep.Cov["evaluations"] = evals
	rep.Cov["distinct_nontrivial"] = nontriv
	rep.Cov["rule"] = rule
	rep.Cov["bound"] = bound
	rep.Cov["type_cases_total"] = len(cases)
	rep.Cov["type_cases_explored"] = len(casesRun)
	rep.Cov["excluded_not_compiling"] = len(excl)
	if len(excl) > 40 {
		excl = append(excl[:40], fmt.Sprintf("… %d more", len(excl)-40))
	}
	rep.Cov["excluded_list"] = excl
	rep.Cov["pool_values_total"] = poolSum
	rep.Cov["distinct_outcomes"] = outcomes
	rep.Cov["goderive_runs"] = res.GenRuns
	if histProps[prop] {
		rep.Cov["regeneration"] = fmt.Sprintf("every batch was also regenerated over the derived.gen.go of an older version of its sources (two older versions: every struct cut to its first field; every struct without its fields of basic type, which leaves the set of generated functions and their signatures as they are): %d batches reproduced the from-scratch bytes (already explored), %d left different bytes and were compiled and explored again", res.HistSame, res.HistDiffer)
	}
	rep.Cov["compiler_runs"] = res.Builds
	rep.Cov["exhaustive"] = true
	rep.Cov["explanation"] = "every explored execution is an execution of the real generated code (goderive built from the working tree, output compiled by the Go compiler); exhaustive within the stated type and value bounds"
	if len(casesRun) == 0 {
		rep.Infra("no case was explored at all")
	}
	if len(casesRun)+len(res.Failures) < len(cases) {
		rep.Infra(fmt.Sprintf("only %d of %d cases accounted for", len(casesRun)+len(res.Failures), len(cases)))
	}
}

// for these properties a supported signature that cannot be generated or
// compiled is itself a violation (the statement quantifies over every signature)
var failuresAreViolations = map[string]bool{"C01": true, "C15": true, "C16": true, "C18": true}

// failKey lets a property key its generation/compile failures by input class
var failKey = map[string]func(f e1Failure) string{}

// markSuspects isolates the cases whose would-be failure key is a listed finding.
func markSuspects(rep *Reporter, prop string, cases []*e1Case) {
	fk := failKey[prop]
	if fk == nil {
		return
	}
	n := 0
	for _, c := range cases {
		for _, phase := range []string{"generate", "compile"} {
			if _, ok := rep.matchKnown("does-not-" + phase + "|" + fk(e1Failure{Case: c, Phase: phase})); ok {
				c.Suspect = true
			}
		}
		if c.Suspect {
			n++
		}
	}
	rep.Cov["cases_isolated_as_listed_findings"] = n
}

func caseLabel(c *e1Case) string {
	if c.Ty != nil {
		return c.Ty.Expr
	}
	if s := c.Tags["sig"]; s != "" {
		return s
	}
	return c.ID
}

var normIDRe = regexp.MustCompile(`_c[0-9]+|\bc[0-9]+\b`)
var normPosRe = regexp.MustCompile(`[a-zA-Z0-9_./]*\.go:[0-9]+:[0-9]+:? ?`)
var normNumRe = regexp.MustCompile(`[0-9]+`)

func normErr(s string) string {
	s = normPosRe.ReplaceAllString(s, "")
	s = normIDRe.ReplaceAllString(s, "_ID")
	s = normNumRe.ReplaceAllString(s, "N")
	return head(s, 140)
}

// crossProcessTables compares the complete hash tables of the two harness processes.
func crossProcessTables(rep *Reporter, res *e1Result) {
	tabs := map[string][2]map[string]interface{}{}
	for _, m := range res.Records {
		if m["k"] != "table" {
			continue
		}
		id := str(m, "case")
		t := tabs[id]
		r := num(m, "run")
		if r < 2 {
			t[r], _ = m["vals"].(map[string]interface{})
		}
		tabs[id] = t
	}
	compared := 0
	for id, t := range tabs {
		if t[0] == nil || t[1] == nil {
			continue
		}
		for k, v := range t[0] {
			compared++
			if v2, ok := t[1][k]; !ok || v2 != v {
				rep.Violation("hash-differs-across-processes|"+typeOfCase(res, id), fmt.Sprintf("case %s value %s: process 1 %v, process 2 %v", id, k, v, t[1][k]), map[string]interface{}{"engine": "e1", "case": id})
			}
		}
	}
	rep.Cov["cross_process_hashes_compared"] = compared
}

func typeOfCase(res *e1Result, id string) string {
	for _, m := range res.Records {
		if m["k"] == "stat" && str(m, "case") == id {
			return str(m, "type")
		}
	}
	return id
}

// replay re-creates the recorded scenario against the current tree. For E1
// violations the recorded single-case package is rebuilt and its harness run
// without any enumeration; for the other engines the property's enumeration is
// re-run with every other violation masked. Exit 1 = reproduced, 0 = not.
func replay(path string) {
	b, err := os.ReadFile(path)
	if err != nil {
		fatalInfra("replay: %v", err)
	}
	var rec map[string]interface{}
	if err := json.Unmarshal(b, &rec); err != nil {
		fatalInfra("replay: %v", err)
	}
	prop, key := str(rec, "property"), str(rec, "key")
	fmt.Printf("replaying %s violation %q\n  recorded: %s\n", prop, key, oneLine(str(rec, "what")))
	files, _ := rec["files"].(map[string]interface{})
	hargs, _ := rec["harness_args"].([]interface{})
	if str(rec, "engine") == "e1" && len(files) > 0 && len(hargs) > 0 {
		dir := filepath.Join(scratchDir, "replay")
		for n, c := range files {
			if cs, ok := c.(string); ok && n != "p/derived.gen.go" {
				writeFile(filepath.Join(dir, n), cs)
			}
		}
		g := run(dir, 3*time.Minute, nil, buildGoderive(), "./p")
		fmt.Printf("  goderive exit %d %s\n", g.Exit, head(firstErrorLine(g.Stderr), 200))
		c := run(dir, 10*time.Minute, nil, "go", "build", "-o", "h.bin", ".")
		if g.Exit != 0 || c.Exit != 0 {
			fmt.Printf("  package does not generate/compile now: %s\n", head(firstErrorLine(c.Stderr), 300))
			cleanup()
			if strings.HasPrefix(key, "does-not-") {
				fmt.Println("REPRODUCED")
				os.Exit(1)
			}
			os.Exit(0)
		}
		var args []string
		for _, a := range hargs {
			args = append(args, fmt.Sprint(a))
		}
		h := run(dir, 10*time.Minute, nil, filepath.Join(dir, "h.bin"), args...)
		found := false
		for _, l := range strings.Split(h.Stdout, "\n") {
			var m map[string]interface{}
			if json.Unmarshal([]byte(l), &m) == nil && m["k"] == "viol" && str(m, "key") == key {
				found = true
				fmt.Printf("REPRODUCED property=%s key=%s\n  %s on %s: %s inputs %v\n", prop, key, str(m, "clause"), str(m, "type"), str(m, "detail"), m["inputs"])
			}
		}
		cleanup()
		if found {
			os.Exit(1)
		}
		fmt.Println("NOT REPRODUCED (the recorded violation does not occur on the current tree)")
		os.Exit(0)
	}
	if str(rec, "engine") == "e3a" && str(rec, "configuration") != "" {
		replayE3a(prop, rec)
		return
	}
	f, ok := checks[prop]
	if !ok {
		fatalInfra("replay: unknown property %q", prop)
	}
	replayKey = key
	f("quick")
}

var _ = strings.Contains
