// Command verif is the driver of the model-checking machinery for goderive.
package main

import (
	"fmt"
	"os"
)

type checkFunc func(tier string)

var checks = map[string]checkFunc{}

func main() {
	if len(os.Args) < 2 {
		fmt.Fprintln(os.Stderr, "usage: verif check <id> quick|thorough | verif replay <path>")
		os.Exit(2)
	}
	switch os.Args[1] {
	case "check":
		if len(os.Args) < 4 {
			fmt.Fprintln(os.Stderr, "usage: verif check <id> quick|thorough")
			os.Exit(2)
		}
		id, tier := os.Args[2], os.Args[3]
		if t := os.Getenv("VERIF_TIER"); t == "quick" || t == "thorough" {
			tier = t
		}
		f, ok := checks[id]
		if !ok {
			fmt.Fprintln(os.Stderr, "unknown property", id)
			os.Exit(2)
		}
		initScratch()
		defer cleanup()
		f(tier)
	case "replay":
		if len(os.Args) < 3 {
			fmt.Fprintln(os.Stderr, "usage: verif replay <path>")
			os.Exit(2)
		}
		initScratch()
		defer cleanup()
		replay(os.Args[2])
	default:
		fmt.Fprintln(os.Stderr, "unknown command", os.Args[1])
		os.Exit(2)
	}
}
