package main

import (
	"fmt"
	"path/filepath"
	"regexp"
	"sort"
	"strings"
	"sync"
)

func init() {
	checks["C09"] = checkC09
}

type c09prog struct {
	label  string // what is being tried
	class  string // canonical input class (for keys)
	plugin string // plugin name the call addresses ("" for several)
	call   string // name of the derive call
	files  pkgFiles
	types  []string // argument type spellings (for the diagnostic oracle)
	// the derive call is well-formed and supported: a run that exits 0 must define it
	mustGenerate bool
	args         []string // goderive arguments (default ".")
	onlyIn       string   // derived.gen.go may only appear in this directory
	mustFail     bool     // the invocation contains an unsupported call: exit 0 is a violation
}

var c09Plugins = []struct{ name, prefix string }{
	{"equal", "deriveEqual"}, {"compare", "deriveCompare"}, {"fmap", "deriveFmap"}, {"join", "deriveJoin"}, {"keys", "deriveKeys"},
	{"sort", "deriveSort"}, {"deepcopy", "deriveDeepCopy"}, {"set", "deriveSet"}, {"min", "deriveMin"}, {"max", "deriveMax"},
	{"contains", "deriveContains"}, {"intersect", "deriveIntersect"}, {"union", "deriveUnion"}, {"filter", "deriveFilter"},
	{"takewhile", "deriveTakeWhile"}, {"unique", "deriveUnique"}, {"flip", "deriveFlip"}, {"toerror", "deriveToError"},
	{"curry", "deriveCurry"}, {"uncurry", "deriveUncurry"}, {"all", "deriveAll"}, {"any", "deriveAny"}, {"tuple", "deriveTuple"},
	{"gostring", "deriveGoString"}, {"compose", "deriveCompose"}, {"do", "deriveDo"}, {"pipeline", "derivePipeline"}, {"dup", "deriveDup"},
	{"clone", "deriveClone"}, {"hash", "deriveHash"}, {"mem", "deriveMem"}, {"traverse", "deriveTraverse"}, {"apply", "deriveApply"},
}

// value alphabet of the misuse menu: name -> type
var c09Values = []struct{ name, typ string }{
	{"i", "int"}, {"s", "string"}, {"b", "bool"}, {"c", "complex128"}, {"sl", "[]int"}, {"m", "map[string]int"}, {"p", "*S"}, {"st", "S"},
	{"ch", "chan int"}, {"e", "error"}, {"f1", "func(int) int"}, {"f2", "func(int, string) bool"}, {"fv", "func(int, ...int) int"},
	{"fe", "func() (int, error)"}, {"pred", "func(int) bool"}, {"u", "unsafe.Pointer"}, {"ifc", "interface{}"}, {"nil", "untyped nil"}, {"1", "untyped int"},
	// named versions of the shapes the functional plugins take apart
	{"nfe", "Thunk"}, {"nf1", "Fn"}, {"nsl", "Ints"}, {"nm", "Dict"},
	// a function whose only parameter is variadic, and a slice its parameter type matches element-wise
	{"fvo", "func(...int) int"}, {"ssl", "[][]int"},
}

var c09Reduced = []string{"i", "sl", "f1", "fv", "e", "ch", "st"}

const c09Prelude = `package m

import "unsafe"

type S struct {
	A int
	B string
}

type Thunk func() (int, error)
type Fn func(int) int
type Ints []int
type Dict map[string]int

// twins: different named types with the same underlying types
type Thunk2 func() (int, error)
type Fn2 func(int) int
type Ints2 []int
type Dict2 map[string]int

var (
	nfe2 Thunk2
	nf12 Fn2
	nsl2 Ints2
	nm2  Dict2
	nfe  Thunk
	nf1  Fn
	nsl  Ints
	nm   Dict
	fvo  func(...int) int
	ssl  [][]int
	i    int
	s    string
	b    bool
	c    complex128
	sl   []int
	m    map[string]int
	p    *S
	st   S
	ch   chan int
	e    error
	f1   func(int) int
	f2   func(int, string) bool
	fv   func(int, ...int) int
	fe   func() (int, error)
	pred func(int) bool
	u    unsafe.Pointer
	ifc  interface{}
)

`

// argClass names an argument tuple by its arity and its most exotic member (in
// a fixed priority order): the input class a finding is recorded under.
func argClass(ts []string) string {
	prio := []struct{ kind, match string }{
		{"untyped-nil", "untyped nil"}, {"unsafe.Pointer", "unsafe.Pointer"}, {"variadic-func", "...int"}, {"chan", "chan int"}, {"interface", "interface{}"},
		{"error", "error"}, {"func", "func("}, {"named-func", "Thunk"}, {"named-func", "Fn"}, {"named-slice", "Ints"}, {"named-map", "Dict"}, {"complex", "complex128"}, {"bool", "bool"}, {"struct", "S"}, {"map", "map["}, {"slice", "[]int"},
		{"string", "string"}, {"untyped-const", "untyped int"}, {"int", "int"},
	}
	for _, p := range prio {
		for _, t := range ts {
			if t == p.match || (len(p.match) > 2 && strings.Contains(t, p.match) && p.kind != "struct" && p.kind != "error" && p.kind != "bool" && p.kind != "int" && p.kind != "string") || (p.kind == "struct" && (t == "S" || t == "*S")) {
				return fmt.Sprintf("args:%s/n=%d", p.kind, len(ts))
			}
		}
	}
	return fmt.Sprintf("args:none/n=%d", len(ts))
}

func c09Programs(tier string) []c09prog {
	var out []c09prog
	typeOf := map[string]string{}
	var names []string
	for _, v := range c09Values {
		typeOf[v.name] = v.typ
		names = append(names, v.name)
	}
	// 1. every argument tuple over the value alphabet x every plugin
	var tuples [][]string
	tuples = append(tuples, nil)
	for _, a := range names {
		tuples = append(tuples, []string{a})
	}
	for _, a := range names {
		for _, b := range names {
			tuples = append(tuples, []string{a, b})
		}
	}
	three := c09Reduced
	if tier == "thorough" {
		three = names
	}
	for _, a := range three {
		for _, b := range three {
			for _, c := range three {
				tuples = append(tuples, []string{a, b, c})
			}
		}
	}
	for _, pl := range c09Plugins {
		for _, t := range tuples {
			var ts []string
			for _, a := range t {
				ts = append(ts, typeOf[a])
			}
			call := pl.prefix + "(" + strings.Join(t, ", ") + ")"
			out = append(out, c09prog{
				label: call + " with (" + strings.Join(ts, ", ") + ")", class: argClass(ts), plugin: pl.name, call: pl.prefix, types: ts,
				files: pkgFiles{"a.go": c09Prelude + "func use() {\n\t" + call + "\n}\n"},
			})
		}
	}
	// 1b. two calls in one package whose arguments are of different named types with one
	// underlying type (each call under a name of its own)
	twin := map[string]string{"nfe": "nfe2", "nf1": "nf12", "nsl": "nsl2", "nm": "nm2"}
	for _, pl := range c09Plugins {
		for _, t := range tuples {
			if len(t) == 0 || len(t) > 2 {
				continue
			}
			var ts, t2 []string
			any := false
			for _, a := range t {
				ts = append(ts, typeOf[a])
				if b, ok := twin[a]; ok {
					t2 = append(t2, b)
					any = true
				} else {
					t2 = append(t2, a)
				}
			}
			for _, a := range t {
				if strings.HasPrefix(typeOf[a], "untyped") {
					any = false // untyped arguments are section 1's matter (recorded finding)
				}
			}
			if !any {
				continue
			}
			callA := pl.prefix + "A(" + strings.Join(t, ", ") + ")"
			callB := pl.prefix + "B(" + strings.Join(t2, ", ") + ")"
			out = append(out, c09prog{
				label: callA + " next to " + callB + " with (" + strings.Join(ts, ", ") + ") and their twins", class: "twin-named-types/" + argClass(ts), plugin: pl.name, call: pl.prefix, types: ts,
				files: pkgFiles{"a.go": c09Prelude + "func use() {\n\t" + callA + "\n\t" + callB + "\n}\n"},
			})
		}
	}
	// 2. an unsupported constituent at every position of small type shapes x plugins
	unsup := []struct {
		name, typ  string
		comparable bool
	}{
		{"chan", "chan int", true}, {"func", "func()", false}, {"interface", "interface{}", true}, {"unsafe.Pointer", "unsafe.Pointer", true},
		// anonymous structs: supported by some plugins, refused by others
		{"anon-struct-empty", "struct{}", true}, {"anon-struct-one-field", "struct{ X int }", true}, {"anon-struct-two-fields", "struct {\n\tX int\n\tY string\n}", true},
		{"anon-struct-with-slice", "struct{ S []int }", false},
		// nothing but blank fields: comparable padding, and a blank field that makes the struct incomparable
		{"anon-struct-blank-only", "struct{ _ int32 }", true}, {"anon-struct-blank-slice-only", "struct{ _ []int }", false},
		// the "do not compare" marker: a zero-length array of an incomparable element type
		{"zero-length-func-array", "[0]func()", false},
		{"anon-struct-blank-and-slice", "struct {\n\t_ int\n\tS []int\n}", false},
	}
	type shape struct {
		pos  string
		expr func(u string) string
		decl func(u string) string
		keyp bool // the constituent sits in map-key position
	}
	id := func(string) string { return "" }
	sdecl := func(u string) string { return "type U struct {\n\tA int\n\tF " + u + "\n}\n" }
	shapes := []shape{
		{"root", func(u string) string { return u }, id, false},
		{"pointer-target", func(u string) string { return "*" + u }, id, false},
		{"slice-element", func(u string) string { return "[]" + u }, id, false},
		{"array-element", func(u string) string { return "[2]" + u }, id, false},
		{"map-value", func(u string) string { return "map[string]" + u }, id, false},
		{"map-key", func(u string) string { return "map[" + u + "]int" }, id, true},
		{"struct-field", func(u string) string { return "U" }, sdecl, false},
		{"struct-field-behind-pointer", func(u string) string { return "*U" }, sdecl, false},
		{"struct-field-in-slice", func(u string) string { return "[]U" }, sdecl, false},
		{"struct-field-in-map", func(u string) string { return "map[string]*U" }, sdecl, false},
		{"slice-of-pointers", func(u string) string { return "[]*" + u }, id, false},
		{"pointer-to-slice", func(u string) string { return "*[]" + u }, id, false},
		{"slice-of-slices", func(u string) string { return "[][]" + u }, id, false},
		{"nested-struct-field", func(u string) string { return "*V" }, func(u string) string { return sdecl(u) + "type V struct {\n\tP *U\n\tL []U\n}\n" }, false},
	}
	templates := []struct{ plugin, prefix, args string }{
		{"equal", "deriveEqual", "x, y"}, {"compare", "deriveCompare", "x, y"}, {"hash", "deriveHash", "x"}, {"deepcopy", "deriveDeepCopy", "x, y"},
		{"clone", "deriveClone", "x"}, {"gostring", "deriveGoString", "x"}, {"sort", "deriveSort", "xs"}, {"unique", "deriveUnique", "xs"},
		{"contains", "deriveContains", "xs, x"}, {"min", "deriveMin", "xs, x"}, {"max", "deriveMax", "xs, x"}, {"union", "deriveUnion", "xs, xs"},
		{"intersect", "deriveIntersect", "xs, xs"}, {"mem", "deriveMem", "fx"}, {"join", "deriveJoin", "xss"},
	}
	for _, u := range unsup {
		for _, sh := range shapes {
			if sh.keyp && !u.comparable {
				continue
			}
			T := sh.expr(u.typ)
			for _, tp := range templates {
				src := "package m\n\nimport \"unsafe\"\n\nvar _ unsafe.Pointer\n\n" + sh.decl(u.typ) +
					fmt.Sprintf("var (\n\tx, y %s\n\txs []%s\n\txss [][]%s\n\tfx func(%s) int\n)\n\nfunc use() {\n\t%s(%s)\n}\n", T, T, T, T, tp.prefix, tp.args)
				out = append(out, c09prog{
					label: fmt.Sprintf("%s(%s) with %s at %s of %s", tp.prefix, tp.args, u.typ, sh.pos, T), class: fmt.Sprintf("unsupported=%s@%s", u.name, sh.pos),
					plugin: tp.plugin, call: tp.prefix, types: []string{T, u.typ, u.name}, files: pkgFiles{"a.go": src},
				})
			}
		}
	}
	// 2b. component types with a method named like the ones the plugins look for (Equal, Compare,
	// Hash, DeepCopy) but of a shape the plugin cannot use: the type is then handled like any
	// other - field-wise when it is supported, a diagnostic when it holds a chan
	{
		type meth struct{ plugin, prefix, args, name, res string }
		meths := []meth{
			{"equal", "deriveEqual", "x, y", "Equal", "bool"}, {"compare", "deriveCompare", "x, y", "Compare", "int"},
			{"hash", "deriveHash", "x", "Hash", "uint64"}, {"deepcopy", "deriveDeepCopy", "x, y", "DeepCopy", ""}, {"clone", "deriveClone", "x", "DeepCopy", ""},
			{"unique", "deriveUnique", "xs", "Equal", "bool"}, {"sort", "deriveSort", "xs", "Compare", "int"},
		}
		zero := map[string]string{"bool": "false", "int": "0", "uint64": "0"}
		for _, m := range meths {
			ret1 := func(extra string) (string, string) { // result list, return statement
				switch {
				case m.res == "" && extra == "":
					return "", ""
				case m.res == "":
					return " " + extra, " return nil "
				case extra == "":
					return " " + m.res, " return " + zero[m.res] + " "
				}
				return " (" + m.res + ", " + extra + ")", " return " + zero[m.res] + ", nil "
			}
			r, rs := ret1("")
			r2, rs2 := ret1("error")
			shapes := []struct{ name, decl string }{
				{"no-parameter", "func (t T) " + m.name + "()" + r + " {" + rs + "}"},
				{"no-result", "func (t T) " + m.name + "(u T) {}"},
				{"extra-error-result", "func (t T) " + m.name + "(u T)" + r2 + " {" + rs2 + "}"},
				{"two-parameters", "func (t T) " + m.name + "(u, v T)" + r + " {" + rs + "}"},
				{"parameter-of-another-type", "func (t T) " + m.name + "(u string)" + r + " {" + rs + "}"},
				{"variadic-parameter", "func (t T) " + m.name + "(u ...T)" + r + " {" + rs + "}"},
				{"pointer-receiver-interface-parameter", "func (t *T) " + m.name + "(u interface{})" + r + " {" + rs + "}"},
				{"field-not-method", ""},
			}
			for _, sh := range shapes {
				for _, body := range []struct{ name, fields string }{{"supported", "\tA int\n\tL []int\n"}, {"holds-chan", "\tA int\n\tC chan int\n"}} {
					T := "type T struct {\n" + body.fields + "}\n\n" + sh.decl + "\n\n"
					if sh.name == "field-not-method" {
						T = "type T struct {\n" + body.fields + "\t" + m.name + " func(T) bool\n}\n\n"
						if body.name == "holds-chan" {
							continue
						}
					}
					src := "package m\n\n" + T + "type S struct {\n\tF T\n\tP *T\n\tL []T\n\tM map[string]T\n}\n\nvar (\n\tx, y *S\n\txs []*S\n)\n\nfunc use() {\n\t" + m.prefix + "(" + m.args + ")\n}\n"
					pr := c09prog{
						label: fmt.Sprintf("%s(%s) on a struct whose component type declares %s: %s", m.prefix, m.args, sh.name, strings.TrimSpace(sh.decl)), class: "user-method-of-unusable-shape=" + m.name + "/" + sh.name + "/" + body.name,
						plugin: m.plugin, call: m.prefix, types: []string{"T", "*S", "chan int"}, files: pkgFiles{"a.go": src},
					}
					if body.name == "holds-chan" && sh.name != "pointer-receiver-interface-parameter" {
						pr.mustFail = true
					}
					if sh.name == "field-not-method" {
						pr.mustFail = true // a func-typed field is unsupported by every one of these plugins
					}
					out = append(out, pr)
				}
			}
		}
	}
	// 3. broken user files around a perfectly supported call
	good := "package m\n\ntype S struct {\n\tA int\n\tB []string\n}\n\nfunc use(a, b *S) bool {\n\treturn deriveEqual(a, b)\n}\n"
	broken := []struct {
		name    string
		files   pkgFiles
		mustGen bool
	}{
		{"syntax-error-in-other-file", pkgFiles{"a.go": good, "b.go": "package m\n\nfunc broken( {\n"}, false},
		{"type-error-in-other-file", pkgFiles{"a.go": good, "b.go": "package m\n\nvar bad int = \"not an int\"\n"}, true},
		{"unresolved-import", pkgFiles{"a.go": good, "b.go": "package m\n\nimport \"example.com/does/not/exist\"\n\nvar _ = exist.X\n"}, true},
		{"undefined-type-in-argument", pkgFiles{"a.go": "package m\n\nfunc use(a, b *Missing) bool {\n\treturn deriveEqual(a, b)\n}\n"}, false},
		{"undefined-type-in-map-key", pkgFiles{"a.go": "package m\n\nfunc use(a map[Missing]int) []Missing {\n\treturn deriveKeys(a)\n}\n"}, false},
		{"undefined-type-in-slice-element", pkgFiles{"a.go": "package m\n\nfunc use(a, b []Missing) bool {\n\treturn deriveEqual(a, b)\n}\n"}, false},
		{"undefined-type-in-struct-field", pkgFiles{"a.go": "package m\n\ntype S struct{ F []Missing }\n\nfunc use(a, b *S) bool {\n\treturn deriveEqual(a, b)\n}\n"}, false},
		{"undefined-variable-argument", pkgFiles{"a.go": "package m\n\nfunc use() bool {\n\treturn deriveEqual(nope1, nope2)\n}\n"}, false},
		{"valid-call-next-to-unresolvable-call", pkgFiles{"a.go": good + "\nfunc use2() {\n\tderiveHash(nope)\n}\n"}, false},
		{"empty-package-clause-only", pkgFiles{"a.go": "package m\n"}, false},
		{"call-in-test-file-only", pkgFiles{"a.go": "package m\n\ntype S struct{ A int }\n", "a_test.go": "package m\n\nfunc use(a, b *S) bool {\n\treturn deriveEqual(a, b)\n}\n"}, false},
		{"dot-import-of-unsafe-with-bare-calls", pkgFiles{"a.go": "package m\n\nimport . \"unsafe\"\n\ntype S struct {\n\tA int\n\tB []string\n}\n\nvar size = Sizeof(S{})\n\nfunc use(a, b *S) bool {\n\t_ = Pointer(a)\n\treturn deriveEqual(a, b)\n}\n"}, true},
		{"dot-import-of-a-module-package", pkgFiles{"a.go": "package m\n\nimport . \"example.com/m/lib\"\n\nfunc use(a, b *Thing) bool {\n\t_ = Make()\n\treturn deriveEqual(a, b)\n}\n", "lib/lib.go": "package lib\n\ntype Thing struct {\n\tA int\n\tL []string\n}\n\nfunc Make() *Thing { return nil }\n"}, true},
		{"struct-with-only-blank-fields-embedded", pkgFiles{"a.go": "package m\n\ntype noCompare struct{ _ [0]func() }\n\ntype onlyPad struct {\n\t_ int32\n\t_ [4]byte\n}\n\ntype S struct {\n\tnoCompare\n\tP onlyPad\n\tQ *onlyPad\n\tA int\n\tB []string\n}\n\nfunc use(a, b *S) bool {\n\treturn deriveEqual(a, b)\n}\n"}, true},
		{"struct-with-only-blank-fields-hash-compare-copy", pkgFiles{"a.go": "package m\n\ntype onlyPad struct {\n\t_ int32\n}\n\ntype S struct {\n\tP onlyPad\n\tQ *onlyPad\n\tL []onlyPad\n\tA int\n}\n\nfunc use(a, b *S) (uint64, int, *S, string) {\n\treturn deriveHash(a), deriveCompare(a, b), deriveClone(a), deriveGoString(a)\n}\n"}, true},
		{"line-directive-before-package-clause", pkgFiles{"gen/a.go": "//line ../tmpl/point.tmpl:2\npackage gen\n\ntype S struct {\n\tA int\n\tB []string\n}\n\nfunc use(a, b *S) bool {\n\treturn deriveEqual(a, b)\n}\n", "tmpl/point.tmpl": "template text\n", "tmpl/keep.go": "package tmpl\n"}, false},
		{"method-value-and-conversion-calls", pkgFiles{"a.go": "package m\n\ntype S struct {\n\tA int\n\tB []string\n}\n\ntype F func(int) int\n\nfunc (s *S) M(x int) int { return x }\n\nfunc use(a, b *S) bool {\n\tf := a.M\n\t_ = F(f)(1) + int(float64(2)) + len(a.B)\n\treturn deriveEqual(a, b)\n}\n"}, true},
		{"generic-function-next-to-the-call", pkgFiles{"a.go": "package m\n\ntype S struct {\n\tA int\n\tB []string\n}\n\nfunc Map[T, U any](f func(T) U, l []T) []U { return nil }\n\nfunc use(a, b *S) bool {\n\t_ = Map(func(i int) string { return \"\" }, []int{1})\n\treturn deriveEqual(a, b)\n}\n"}, true},
		{"user-package-named-like-a-generated-import", pkgFiles{"a.go": "package m\n\nimport \"example.com/m/sort\"\n\nfunc use(x []string) []string {\n\t_ = sort.X\n\treturn deriveSort(x)\n}\n", "sort/sort.go": "package sort\n\nvar X = 1\n"}, true},
	}
	for _, b := range broken {
		pr := c09prog{label: "broken user package: " + b.name, class: "broken=" + b.name, plugin: "equal", call: "derive", files: b.files, mustGenerate: b.mustGen}
		if b.name == "line-directive-before-package-clause" {
			pr.args = []string{"./gen"}
			pr.onlyIn = "gen"
		}
		out = append(out, pr)
	}
	// 3b. goderive pointed at a directory without source files, started in a directory whose
	// own package has a derived.gen.go: only the named directory is a processed package
	{
		root := pkgFiles{"a.go": good, "derived.gen.go": "// Code generated by goderive DO NOT EDIT.\n\npackage m\n\n// placeholder of an earlier run\n"}
		with := func(extra pkgFiles) pkgFiles {
			fs := pkgFiles{}
			for k, v := range root {
				fs[k] = v
			}
			for k, v := range extra {
				fs[k] = v
			}
			return fs
		}
		for _, v := range []struct {
			name  string
			extra pkgFiles
			args  []string
			only  string
		}{
			{"directory-with-only-a-derived-file", pkgFiles{"sub/derived.gen.go": "// Code generated by goderive DO NOT EDIT.\n\npackage sub\n"}, []string{"./sub"}, "sub"},
			{"directory-with-only-an-external-test-file", pkgFiles{"xt/x_test.go": "package xt_test\n"}, []string{"./xt"}, "xt"},
			{"directory-with-only-an-ignored-file", pkgFiles{"ig/x.go": "//go:build ignore\n\npackage ig\n"}, []string{"./ig"}, "ig"},
		} {
			out = append(out, c09prog{label: "started next to a generated package: " + v.name, class: "broken=" + v.name, plugin: "equal", call: "derive", files: with(v.extra), args: v.args, onlyIn: v.only})
		}
	}
	// 4. several packages in one invocation, one of them with an unsupported call: the
	// order in which the loader hands packages over is unspecified, so each layout is
	// run several times
	goodPkg := func(n string) string {
		return "package " + n + "\n\ntype S struct {\n\tA int\n\tB []string\n}\n\nfunc use(a, b *S) bool {\n\treturn deriveEqual(a, b)\n}\n"
	}
	badKinds := []struct{ name, src string }{
		{"generator-error", "type C struct{ F chan int }\n\nfunc use(a, b *C) int {\n\treturn deriveCompare(a, b)\n}\n"},
		{"add-error", "func use(a, b int) bool {\n\treturn deriveEqual(a, b, a)\n}\n"},
	}
	for _, bk := range badKinds {
		for _, badName := range []string{"aaa", "mmm", "zzz"} {
			for rep := 0; rep < 6; rep++ {
				fs := pkgFiles{}
				for _, n := range []string{"bbb", "ccc", "nnn", "ooo", "yyy"} {
					fs[n+"/x.go"] = goodPkg(n)
				}
				fs[badName+"/x.go"] = "package " + badName + "\n\n" + bk.src
				out = append(out, c09prog{label: fmt.Sprintf("goderive ./... over six packages, package %s has an unsupported call (%s), repetition %d", badName, bk.name, rep), class: "multi-package=" + bk.name,
					plugin: "compare", call: "derive", files: fs, args: []string{"./..."}, mustFail: true})
			}
		}
	}
	return out
}

var c09DiagWords = regexp.MustCompile(`(?i)derive[A-Za-z]+|unsupported|cannot generate|not of type|argument|could not|is not|does not|expected|wanted|undefined|invalid`)

func checkC09(tier string) {
	rep := newReporter("C09", tier)
	progs := c09Programs(tier)
	var mu sync.Mutex
	outcomes := map[string]int{}
	nontriv := 0
	snapRuns := 0
	parDo(len(progs), func(i int) {
		pr := progs[i]
		dir := filepath.Join(scratchDir, "c09", fmt.Sprintf("p%06d", i))
		writePkg(dir, pr.files)
		defer removeAll(dir)
		before := snapshot(dir)
		args := pr.args
		if len(args) == 0 {
			args = []string{"."}
		}
		r := goderive(dir, args...)
		after := snapshot(dir)
		viol := func(prop, clause, what string) {
			key := fmt.Sprintf("%s|%s|%s", clause, pr.plugin, pr.class)
			rp := rep
			_ = prop
			rp.Violation(key, fmt.Sprintf("%s: %s: %s; goderive exit %d, message: %s", clause, pr.label, what, r.Exit, head(strings.TrimSpace(r.Stderr), 300)),
				map[string]interface{}{"engine": "e2", "files": pr.files, "args": []string{"."}, "stderr": tail(r.Stderr, 2000)})
		}
		mu.Lock()
		snapRuns++
		mu.Unlock()
		// C10's no-flag clause holds on every one of these runs too
		if d := snapDiff(before, after, func(rel string) bool {
			return filepath.Base(rel) == "derived.gen.go" && (pr.onlyIn == "" || filepath.Dir(rel) == pr.onlyIn)
		}); len(d) > 0 {
			viol("C10", "touches-other-files", strings.Join(d, ", "))
		}
		outcome := ""
		switch {
		case r.TimedOut:
			viol("C09", "hang", "no termination within 120 s")
			outcome = "hang"
		case strings.Contains(r.Stderr, "out of memory") || strings.Contains(r.Stderr, "stack exceeds") || strings.Contains(r.Stderr, "stack overflow"):
			viol("C09", "hang", "unbounded recursion: the generator exhausts its stack or the 6 GB address-space limit instead of terminating")
			outcome = "hang"
		case strings.Contains(r.Stderr, "panic:") || strings.Contains(r.Stderr, "goroutine "):
			viol("C09", "panic", "Go panic instead of a diagnostic")
			outcome = "panic"
		case r.Exit != 0:
			outcome = "diagnostic"
			msg := strings.TrimSpace(r.Stderr)
			named := c09DiagWords.MatchString(msg) || strings.Contains(msg, pr.call) || strings.Contains(msg, pr.plugin)
			for _, t := range pr.types {
				if strings.Contains(msg, t) {
					named = true
				}
			}
			if msg == "" || !named {
				viol("C09", "uninformative-diagnostic", "non-zero exit without a message naming the call or type")
			}
		case pr.mustFail:
			outcome = "unsupported-call-not-reported"
			viol("C09", "unsupported-call-not-reported", "exit 0 although one of the packages holds a call goderive cannot generate")
		default:
			outcome = "success"
			cp := typeCheckDir(dir, true, nil)
			var genErrs, undefErrs, callErrs []string
			for _, e := range cp.Errors {
				if strings.Contains(e, "derived.gen.go") {
					genErrs = append(genErrs, e)
				} else if strings.Contains(e, "in argument to derive") || strings.Contains(e, "in call to derive") {
					callErrs = append(callErrs, e)
				} else if strings.Contains(e, "undefined: derive") || strings.Contains(e, "undeclared name: derive") {
					undefErrs = append(undefErrs, e)
				}
			}
			if len(genErrs) > 0 {
				viol("C09", "exit-0-with-bad-derived-file", "derived.gen.go does not parse/type-check: "+shortErrs(genErrs))
				outcome = "bad-file"
			} else if len(undefErrs) > 0 && (pr.mustGenerate || !strings.HasPrefix(pr.class, "broken=")) {
				viol("C09", "exit-0-but-call-not-generated", "the derive call is still undefined after a successful run: "+shortErrs(undefErrs))
				outcome = "not-generated"
			} else if len(callErrs) > 0 && !strings.HasPrefix(pr.class, "broken=") {
				// the generated function does not accept the arguments of the call it was generated for
				viol("C09", "exit-0-but-call-does-not-type-check", "the derive call does not type-check against the generated function: "+shortErrs(callErrs))
				outcome = "call-rejected"
			}
		}
		mu.Lock()
		outcomes[outcome]++
		if outcome != "success" {
			nontriv++
		}
		mu.Unlock()
	})
	rep.Cov["states"] = len(progs)
	rep.Cov["transitions"] = len(progs)
	rep.Cov["traces_validated_against_impl"] = len(progs)
	rep.Cov["evaluations"] = len(progs)
	rep.Cov["distinct_nontrivial"] = nontriv
	rep.Cov["distinct_outcomes"] = outcomes
	rep.Cov["rule"] = "state = one package holding exactly one derive call: (a) every argument tuple of length 0..2 over a 19-value alphabet (int, string, bool, complex, slice, map, pointer, struct, chan, error, plain/two-argument/variadic/error-returning/predicate functions, unsafe.Pointer, interface, nil, untyped constant) and of length 3 over a reduced alphabet, for each of the 33 plugins - this covers wrong arity, mismatched types, functions where values are needed and vice versa, variadic signatures and unordered types; (b) chan, func, interface, unsafe.Pointer or an anonymous struct (empty, one field, two fields, holding a slice) substituted at each of 14 positions of type shapes x 15 plugin templates; (c) broken user files around a supported call; transition = one run of the real goderive; oracle: terminates, no panic trace, and either non-zero exit with a naming message or exit 0 with a derived.gen.go that parses and type-checks (in-process go/types) and defines a function that accepts the call; directory snapshot before/after (C10); non-trivial = runs that did not simply succeed"
	rep.Cov["bound"] = fmt.Sprintf("%d packages", len(progs))
	rep.Cov["exhaustive"] = true
	rep.Cov["snapshot_checked_runs"] = snapRuns
	keys := []string{}
	for k := range outcomes {
		keys = append(keys, k)
	}
	sort.Strings(keys)
	rep.Sample(map[string]interface{}{"label": progs[len(progs)/3].label, "files": progs[len(progs)/3].files})
	rep.Sample(map[string]interface{}{"label": progs[len(progs)-20].label, "files": progs[len(progs)-20].files})
	rep.Finish()
}
