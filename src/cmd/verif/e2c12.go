package main

import (
	"fmt"
	"go/ast"
	"go/parser"
	"go/token"
	"go/types"
	"os"
	"path/filepath"
	"regexp"
	"sort"
	"strings"
	"sync"
	"time"
)

func init() {
	checks["C12"] = checkC12
}

// default prefixes of all plugins (name -> prefix), as registered by main.go
func defaultPrefixes() map[string]string {
	m := map[string]string{}
	for _, p := range c09Plugins {
		m[p.name] = p.prefix
	}
	return m
}

type c12pkg struct {
	name string
	src  string
	// suffixed: every derive call carries a suffix after the prefix, so that a
	// prefix spelled like a Go keyword still yields identifiers
	suffixed bool
}

func c12Corpus() []c12pkg {
	types := "type S struct {\n\tA int\n\tB []string\n\tM map[string]*S\n\tP *int\n\tF float64\n}\n\ntype K struct{ X, Y int }\n\n"
	return []c12pkg{
		{"equal-compare", types + "func use(a, b *S) (bool, int) {\n\treturn deriveEqual(a, b), deriveCompare(a, b)\n}\n", false},
		{"hash-unique-mem", types + "func use(l []*S, f func(*S) int) ([]*S, uint64, func(*S) int) {\n\treturn deriveUnique(l), deriveHash(l), deriveMem(f)\n}\n", false},
		{"sort-keys-set-min-max", types + "func use(m map[string]int, l []int) ([]string, map[int]struct{}, int, int) {\n\treturn deriveSort(deriveKeys(m)), deriveSet(l), deriveMin(l, 0), deriveMax(l, 0)\n}\n", false},
		{"clone-deepcopy-gostring", types + "func use(a, b *S) (*S, string) {\n\tderiveDeepCopy(a, b)\n\treturn deriveClone(a), deriveGoString(a)\n}\n", false},
		{"union-intersect-contains", types + "func use(a, b []K, c, d []*S) ([]K, []K, bool, []*S) {\n\treturn deriveUnion(a, b), deriveIntersect(a, b), deriveContains(c, d[0]), deriveUnionS(c, d)\n}\n", false},
		{"fmap-join-filter-all-any-takewhile", types + "func use(f func(int) []int, p func(int) bool, l []int) ([]int, []int, bool, bool, []int) {\n\treturn deriveJoin(deriveFmap(f, l)), deriveFilter(p, l), deriveAll(p, l), deriveAny(p, l), deriveTakeWhile(p, l)\n}\n", false},
		{"curry-uncurry-flip-apply-tuple", types + "func use(f func(a int, b string, c bool) string) string {\n\tg := deriveUncurry(deriveCurry(f))\n\th := deriveFlip(f)\n\tk := deriveApply(f, true)\n\tt := deriveTuple(1, \"x\")\n\ti, s := t()\n\treturn g(i, s, true) + h(s, i, false) + k(i, s)\n}\n", false},
		{"compose-traverse-toerror", types + "func use(f func(int) (string, error), g func(string) (float64, error), p func(s string) (int, bool), e error, l []int) {\n\t_ = deriveCompose(f, g)\n\t_, _ = deriveTraverse(f, l)\n\t_ = deriveToError(e, p)\n}\n", false},
		{"set-sort-same-argument", types + "func use(l []string) (map[string]struct{}, []string) {\n\treturn deriveSet(l), deriveSort(l)\n}\n", false},
		{"suffixed-names", types + "func use(f func(int) int, l []int, m map[string]int, a, b *S) ([]int, []string, bool, int) {\n\treturn deriveFmapInc(f, l), deriveSortStr(deriveKeysOf(m)), deriveEqualS(a, b), deriveCompareS(a, b)\n}\n", true},
	}
}

type c12map struct {
	name     string
	global   string            // -prefix value ("" = default)
	override map[string]string // plugin -> prefix
	nested   bool
	// keywordLike: some prefix is spelled like a Go keyword; only for packages whose calls all carry a suffix
	keywordLike bool
}

func (m c12map) flags() []string {
	var fl []string
	if m.global != "" {
		fl = append(fl, "-prefix="+m.global)
	}
	if len(m.override) > 0 {
		var ps []string
		for k, v := range m.override {
			ps = append(ps, k+"="+v)
		}
		sort.Strings(ps)
		fl = append(fl, "-pluginprefix="+strings.Join(ps, ","))
	}
	return fl
}

// prefixes computes the effective prefix of every plugin under m.
func (m c12map) prefixes() map[string]string {
	out := map[string]string{}
	for pl, def := range defaultPrefixes() {
		p := def
		if m.global != "" {
			p = strings.Replace(def, "derive", m.global, 1)
		}
		if o, ok := m.override[pl]; ok {
			p = o
		}
		out[pl] = p
	}
	return out
}

func c12Maps() []c12map {
	return []c12map{
		{name: "global d", global: "d"},
		{name: "global zq", global: "zq"},
		{name: "global deriveX", global: "deriveX"},
		{name: "global Derive", global: "Derive"},
		{name: "global goderive (contains the default prefix)", global: "goderive"},
		{name: "global underived", global: "underived"},
		{name: "equal=eq", override: map[string]string{"equal": "eq"}},
		{name: "sort=srt", override: map[string]string{"sort": "srt"}},
		{name: "equal=eq,compare=cmpr", override: map[string]string{"equal": "eq", "compare": "cmpr"}},
		{name: "hash=hsh,unique=unq", override: map[string]string{"hash": "hsh", "unique": "unq"}},
		{name: "global zq + equal=deriveEq (override is literal)", global: "zq", override: map[string]string{"equal": "deriveEq"}},
		{name: "global g + sort=deriveSort", global: "g", override: map[string]string{"sort": "deriveSort"}},
		// a plugin takes over the default prefix of another plugin, which is renamed in the same run
		{name: "equal=deriveCompare,compare=deriveOrd (takes the default of a later-registered plugin)", override: map[string]string{"equal": "deriveCompare", "compare": "deriveOrd"}},
		{name: "compare=deriveEqual,equal=deriveSame (takes the default of an earlier-registered plugin)", override: map[string]string{"compare": "deriveEqual", "equal": "deriveSame"}},
		{name: "equal=deriveCompare,compare=deriveEqual (swapped)", override: map[string]string{"equal": "deriveCompare", "compare": "deriveEqual"}},
		{name: "global gen + equal=deriveCompare", global: "gen", override: map[string]string{"equal": "deriveCompare"}},
		{name: "hash=deriveMem,mem=deriveRemember,unique=deriveHash", override: map[string]string{"hash": "deriveMem", "mem": "deriveRemember", "unique": "deriveHash"}},
		{name: "sort=deriveSet,set=deriveBag,keys=deriveSort", override: map[string]string{"sort": "deriveSet", "set": "deriveBag", "keys": "deriveSort"}},
		{name: "equal=eq,compare=cmp,deepcopy=dc (short prefixes sharing no letter with the longest default)", override: map[string]string{"equal": "eq", "compare": "cmp", "deepcopy": "dc"}},
		{name: "fmap=map,keys=range (keyword-like)", override: map[string]string{"fmap": "map", "keys": "range"}, keywordLike: true},
		{name: "global func (keyword-like)", global: "func", keywordLike: true},
		{name: "equal=go,compare=type,sort=for (keyword-like)", override: map[string]string{"equal": "go", "compare": "type", "sort": "for"}, keywordLike: true},
		{name: "nested equal=eq,compare=eqCmp", override: map[string]string{"equal": "eq", "compare": "eqCmp"}, nested: true},
		{name: "nested equal=cmpEq,compare=cmp", override: map[string]string{"equal": "cmpEq", "compare": "cmp"}, nested: true},
		{name: "nested set=deriveS,sort=deriveSo", override: map[string]string{"set": "deriveS", "sort": "deriveSo"}, nested: true},
		{name: "nested sort=deriveS,set=deriveSe", override: map[string]string{"sort": "deriveS", "set": "deriveSe"}, nested: true},
		{name: "nested hash=hs,unique=hsU,mem=hsUm", override: map[string]string{"hash": "hs", "unique": "hsU", "mem": "hsUm"}, nested: true},
		{name: "nested fmap=fm,filter=fmi,flip=fmil", override: map[string]string{"fmap": "fm", "filter": "fmi", "flip": "fmil"}, nested: true},
	}
}

var deriveIdentRe = regexp.MustCompile(`\bderive[A-Z][A-Za-z0-9_]*`)

// pluginOf finds the plugin whose prefix is the longest one matching name.
func pluginOf(name string, prefixes map[string]string) (plugin, rest string) {
	best := ""
	for pl, p := range prefixes {
		if strings.HasPrefix(name, p) && (best == "" || len(p) > len(prefixes[best])) {
			best = pl
		}
	}
	if best == "" {
		return "", name
	}
	return best, name[len(prefixes[best]):]
}

// renameSources rewrites the default-named derive calls of src for prefix map m.
func renameSources(src string, m c12map) string {
	def, eff := defaultPrefixes(), m.prefixes()
	return deriveIdentRe.ReplaceAllStringFunc(src, func(id string) string {
		pl, rest := pluginOf(id, def)
		if pl == "" {
			return id
		}
		return eff[pl] + rest
	})
}

// canonicalFuncs splits a derived.gen.go into its functions, each rewritten with
// every generated function name replaced by plugin‹parameter types›.
func canonicalFuncs(path string, prefixes map[string]string) (funcs []string, imports []string, err error) {
	src, err := os.ReadFile(path)
	if err != nil {
		return nil, nil, err
	}
	fset := token.NewFileSet()
	f, err := parser.ParseFile(fset, path, src, parser.ParseComments)
	if err != nil {
		return nil, nil, err
	}
	for _, im := range f.Imports {
		s := im.Path.Value
		if im.Name != nil {
			s = im.Name.Name + " " + s
		}
		imports = append(imports, s)
	}
	sort.Strings(imports)
	type fn struct {
		name, canon, text string
	}
	var fns []fn
	for _, d := range f.Decls {
		fd, ok := d.(*ast.FuncDecl)
		if !ok {
			continue
		}
		var ps []string
		for _, fl := range fd.Type.Params.List {
			n := len(fl.Names)
			if n == 0 {
				n = 1
			}
			for i := 0; i < n; i++ {
				ps = append(ps, types.ExprString(fl.Type))
			}
		}
		pl, _ := pluginOf(fd.Name.Name, prefixes)
		if pl == "" {
			pl = "?" + fd.Name.Name
		}
		start := fd.Pos()
		if fd.Doc != nil {
			start = fd.Doc.Pos()
		}
		text := string(src[fset.Position(start).Offset:fset.Position(fd.End()).Offset])
		fns = append(fns, fn{fd.Name.Name, "‹" + pl + "(" + strings.Join(ps, ", ") + ")›", text})
	}
	// replace longer names first
	order := make([]int, len(fns))
	for i := range order {
		order[i] = i
	}
	sort.Slice(order, func(a, b int) bool { return len(fns[order[a]].name) > len(fns[order[b]].name) })
	for i := range fns {
		t := fns[i].text
		for _, j := range order {
			re := regexp.MustCompile(`\b` + regexp.QuoteMeta(fns[j].name) + `\b`)
			t = re.ReplaceAllString(t, strings.ReplaceAll(fns[j].canon, "$", "$$"))
		}
		funcs = append(funcs, t)
	}
	sort.Strings(funcs)
	return funcs, imports, nil
}

func checkC12(tier string) {
	rep := newReporter("C12", tier)
	corpus := c12Corpus()
	maps := c12Maps()
	var mu sync.Mutex
	runs, compared, textual := 0, 0, 0
	// default runs
	defOut := make([]string, len(corpus))
	defDir := make([]string, len(corpus))
	for i, p := range corpus {
		dir := filepath.Join(scratchDir, "c12", fmt.Sprintf("def%02d", i))
		writePkg(dir, pkgFiles{"a.go": "package m\n\n" + p.src})
		r := goderive(dir, ".")
		runs++
		if r.Exit != 0 {
			rep.Violation("default-run-fails|"+p.name, "corpus package "+p.name+" is rejected with default prefixes: "+head(firstErrorLine(r.Stderr), 200), map[string]interface{}{"engine": "e2", "files": pkgFiles{"a.go": "package m\n\n" + p.src}})
			continue
		}
		if cp := typeCheckDir(dir, false, nil); len(cp.Errors) > 0 {
			rep.Violation("default-run-does-not-type-check|"+p.name, shortErrs(cp.Errors), map[string]interface{}{"engine": "e2", "files": pkgFiles{"a.go": "package m\n\n" + p.src}})
			continue
		}
		defOut[i] = readFileOr(filepath.Join(dir, "derived.gen.go"), "")
		defDir[i] = dir
	}
	type item struct{ pi, mi int }
	var items []item
	for pi := range corpus {
		for mi := range maps {
			if maps[mi].keywordLike && !corpus[pi].suffixed {
				continue
			}
			items = append(items, item{pi, mi})
		}
	}
	// for every ordered pair (P, Q) of plugins a corpus package calls: P's prefix a
	// proper prefix of Q's
	for pi, p := range corpus {
		seen := map[string]bool{}
		var pls []string
		for _, id := range deriveIdentRe.FindAllString(p.src, -1) {
			if pl, _ := pluginOf(id, defaultPrefixes()); pl != "" && !seen[pl] {
				seen[pl] = true
				pls = append(pls, pl)
			}
		}
		sort.Strings(pls)
		for _, a := range pls {
			for _, b := range pls {
				if a == b {
					continue
				}
				maps = append(maps, c12map{name: fmt.Sprintf("nested %s=px,%s=pxQ", a, b), override: map[string]string{a: "px", b: "pxQ"}, nested: true})
				items = append(items, item{pi, len(maps) - 1})
			}
		}
	}
	parDo(len(items), func(ii int) {
		it := items[ii]
		p, m := corpus[it.pi], maps[it.mi]
		if defOut[it.pi] == "" {
			return
		}
		// nested maps are only meaningful for packages that call the plugins involved
		files := pkgFiles{"a.go": "package m\n\n" + renameSources(p.src, m)}
		dir := filepath.Join(scratchDir, "c12", fmt.Sprintf("r%02d-%02d", it.pi, it.mi))
		writePkg(dir, files)
		defer removeAll(dir)
		r := goderive(dir, append(m.flags(), ".")...)
		mu.Lock()
		runs++
		mu.Unlock()
		viol := func(clause, what string) {
			rep.Violation(fmt.Sprintf("%s|map=%s|pkg=%s", clause, m.name, p.name), fmt.Sprintf("%s: package %s under %v: %s; goderive exit %d: %s", clause, p.name, m.flags(), what, r.Exit, head(firstErrorLine(r.Stderr), 200)),
				map[string]interface{}{"engine": "e2", "files": files, "flags": m.flags(), "args": []string{"."}, "default_sources": p.src})
		}
		if r.Exit != 0 {
			viol("renamed-run-fails", "the default-named package is accepted but the renamed one is not")
			return
		}
		if cp := typeCheckDir(dir, false, nil); len(cp.Errors) > 0 {
			viol("renamed-result-does-not-type-check", shortErrs(cp.Errors))
			return
		}
		df, di, err1 := canonicalFuncs(filepath.Join(defDir[it.pi], "derived.gen.go"), defaultPrefixes())
		rf, ri, err2 := canonicalFuncs(filepath.Join(dir, "derived.gen.go"), m.prefixes())
		if err1 != nil || err2 != nil {
			viol("cannot-parse-output", fmt.Sprint(err1, err2))
			return
		}
		mu.Lock()
		compared++
		mu.Unlock()
		if strings.Join(di, ";") != strings.Join(ri, ";") {
			viol("imports-differ", fmt.Sprintf("default %v, renamed %v", di, ri))
		}
		if len(df) != len(rf) {
			viol("different-functions", fmt.Sprintf("default run has %d functions, renamed run %d", len(df), len(rf)))
			return
		}
		for k := range df {
			if df[k] != rf[k] {
				viol("different-functions", "after canonical renaming: "+firstDiff([]byte(df[k]), []byte(rf[k])))
				return
			}
		}
		if m.global != "" && len(m.override) == 0 {
			// textual identity under the inverse substitution on identifier boundaries
			got := readFileOr(filepath.Join(dir, "derived.gen.go"), "")
			inv := regexp.MustCompile(`\b`+regexp.QuoteMeta(m.global)+`([A-Z])`).ReplaceAllString(got, "derive$1")
			mu.Lock()
			textual++
			mu.Unlock()
			if inv != defOut[it.pi] {
				viol("global-prefix-not-textually-identical", firstDiff([]byte(defOut[it.pi]), []byte(inv)))
			}
		}
		// the same package three times in one invocation (./...): every copy must get what the single run got
		single := readFileOr(filepath.Join(dir, "derived.gen.go"), "")
		mdir := filepath.Join(scratchDir, "c12", fmt.Sprintf("m%02d-%02d", it.pi, it.mi))
		mfiles := pkgFiles{}
		for _, sub := range []string{"a", "b", "c"} {
			mfiles[sub+"/a.go"] = files["a.go"]
		}
		writePkg(mdir, mfiles)
		defer removeAll(mdir)
		mr := goderive(mdir, append(m.flags(), "./...")...)
		mu.Lock()
		runs++
		mu.Unlock()
		if mr.Exit != 0 {
			viol("renamed-multi-package-run-fails", "three copies of the package in one ./... invocation: "+head(firstErrorLine(mr.Stderr), 200))
			return
		}
		for _, sub := range []string{"a", "b", "c"} {
			if got := readFileOr(filepath.Join(mdir, sub, "derived.gen.go"), ""); got != single {
				viol("renamed-multi-package-output-differs", fmt.Sprintf("copy %s of the package in a ./... invocation: %s", sub, firstDiff([]byte(single), []byte(got))))
				break
			}
		}
	})
	// registration order: every permutation of the plugins of a nested map, through the library API
	perms, permViol := c12Permutations(rep, corpus)
	_ = permViol
	rep.Cov["states"] = len(items) + perms
	rep.Cov["transitions"] = runs + perms
	rep.Cov["traces_validated_against_impl"] = runs + perms
	rep.Cov["evaluations"] = runs + perms
	rep.Cov["distinct_nontrivial"] = compared + perms
	rep.Cov["canonical_comparisons"] = compared
	rep.Cov["textual_identity_checks"] = textual
	rep.Cov["registration_permutations"] = perms
	rep.Cov["rule"] = "state = (corpus package, prefix map): 9 packages whose calls request helpers across plugins x 16 prefix maps (4 global prefixes, 4 per-plugin override sets, 2 global+override combinations, 6 nested maps where one plugin's prefix is a proper prefix of another's, in both directions); the user sources are derived from the default-named ones by the same renaming; transition = one run of the real goderive with the flags; oracle: renamed run succeeds and type-checks, its functions equal the default run's as sets after naming every generated function plugin‹parameter types› (plugin = longest configured prefix), same imports, and for a bare -prefix the file is textually identical after the inverse substitution; every (package, map) is also run as three copies of the package in one ./... invocation, each copy must receive the bytes of the single run; registration order: an in-process driver built against the working tree registers the plugins of each nested map in every permutation and the output must not change"
	rep.Cov["bound"] = fmt.Sprintf("%d packages x 16 prefix maps + %d per-package nested maps (every ordered pair of plugins the package calls); %d registration permutations", len(corpus), len(maps)-16, perms)
	rep.Cov["exhaustive"] = true
	rep.Sample(map[string]interface{}{"package": corpus[0].name, "map": maps[10].name, "renamed_sources": renameSources(corpus[0].src, maps[10])})
	rep.Sample(map[string]interface{}{"package": corpus[2].name, "map": maps[12].name, "renamed_sources": renameSources(corpus[2].src, maps[12])})
	rep.Finish()
}

// c12Permutations builds the library driver and runs every registration order.
func c12Permutations(rep *Reporter, corpus []c12pkg) (int, int) {
	drv, err := buildLibDriver(nil)
	if err != nil {
		rep.Infra("library driver does not build: " + err.Error())
		return 0, 0
	}
	type scen struct {
		pkg      int
		override map[string]string
		plugins  []string
	}
	scens := []scen{
		{0, map[string]string{"equal": "eq", "compare": "eqCmp"}, []string{"equal", "compare", "hash"}},
		{0, map[string]string{"equal": "cmpEq", "compare": "cmp"}, []string{"compare", "equal", "clone"}},
		{8, map[string]string{"set": "deriveS", "sort": "deriveSo"}, []string{"set", "sort", "keys", "min"}},
		{8, map[string]string{"sort": "deriveS", "set": "deriveSe"}, []string{"sort", "set", "keys", "max"}},
		{1, map[string]string{"hash": "hs", "unique": "hsU", "mem": "hsUm"}, []string{"hash", "unique", "mem", "equal"}},
	}
	total, bad := 0, 0
	var mu sync.Mutex
	parDo(len(scens), func(si int) {
		sc := scens[si]
		m := c12map{override: sc.override}
		src := renameSources(corpus[sc.pkg].src, m)
		outs := map[string][]string{}
		for _, perm := range permutations(sc.plugins) {
			dir := filepath.Join(scratchDir, "c12", fmt.Sprintf("perm%d-%s", si, strings.Join(perm, "-")))
			writePkg(dir, pkgFiles{"a.go": "package m\n\n" + src})
			var ov []string
			for k, v := range sc.override {
				ov = append(ov, k+"="+v)
			}
			sort.Strings(ov)
			r := run(dir, 2*time.Minute, nil, drv, "perm", strings.Join(perm, ","), strings.Join(ov, ","), ".")
			got := readFileOr(filepath.Join(dir, "derived.gen.go"), "<absent>")
			if r.Exit != 0 {
				got = "<failed: " + head(firstErrorLine(r.Stderr), 200) + ">"
			}
			mu.Lock()
			total++
			outs[got] = append(outs[got], strings.Join(perm, ","))
			mu.Unlock()
			removeAll(dir)
		}
		if len(outs) != 1 {
			mu.Lock()
			bad++
			mu.Unlock()
			var desc []string
			for o, ps := range outs {
				desc = append(desc, fmt.Sprintf("%d orders (e.g. %s) -> %s", len(ps), ps[0], head(o, 120)))
			}
			sort.Strings(desc)
			rep.Violation(fmt.Sprintf("registration-order-matters|%v", sc.override), fmt.Sprintf("package %s with overrides %v: the output depends on the order in which plugins are registered: %s", corpus[sc.pkg].name, sc.override, strings.Join(desc, " | ")),
				map[string]interface{}{"engine": "e2-lib", "files": pkgFiles{"a.go": "package m\n\n" + src}, "override": sc.override, "plugins": sc.plugins})
		}
	})
	return total, bad
}

func permutations(xs []string) [][]string {
	if len(xs) <= 1 {
		return [][]string{append([]string(nil), xs...)}
	}
	var out [][]string
	for i := range xs {
		rest := append(append([]string(nil), xs[:i]...), xs[i+1:]...)
		for _, p := range permutations(rest) {
			out = append(out, append([]string{xs[i]}, p...))
		}
	}
	return out
}
