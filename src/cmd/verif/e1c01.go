package main

import (
	"fmt"
	"path/filepath"
	"regexp"
	"strings"
)

func init() {
	checks["C01"] = checkC01
	failKey["C01"] = c01FailKey
}

var shapeTokRe = regexp.MustCompile(`[A-Za-z_][A-Za-z0-9_]*`)

// errShape generalises a tool message to its shape: identifiers that look like
// names from the scenario or the generated code (an upper-case letter, a digit or
// an underscore in them) become X, plain lower-case words stay.
func errShape(msg string) string {
	msg = normPosRe.ReplaceAllString(msg, "")
	msg = shapeTokRe.ReplaceAllStringFunc(msg, func(t string) string {
		for _, r := range t {
			if (r >= 'A' && r <= 'Z') || (r >= '0' && r <= '9') || r == '_' {
				return "X"
			}
		}
		return t
	})
	msg = normNumRe.ReplaceAllString(msg, "N")
	msg = cannotUseRe.ReplaceAllString(msg, "cannot use E (")
	msg = qualStarRe.ReplaceAllString(msg, "**X")
	msg = noFieldRe.ReplaceAllString(msg, "this.X undefined (type **X has no field or method X)")
	msg = nestedAssignRe.ReplaceAllString(msg, "cannot assign to (dst[X])[X]")
	return head(msg, 150)
}

var noFieldRe = regexp.MustCompile(`this\.\w+ undefined \(type \*\*+[\w."/]+ has no field or method \w+\)`)
var nestedAssignRe = regexp.MustCompile(`cannot assign to \(+dst(?:\[X\]\)*)+\[X\]`)
var cannotUseRe = regexp.MustCompile(`cannot use .*? \((?:variable|map index expression|value|constant)[^)]* of `)
var qualStarRe = regexp.MustCompile(`\*\*(?:"[^"]+"|[a-z0-9]+)\.X`)

func c01FailKey(f e1Failure) string {
	pl := f.Case.Tags["plugin"]
	// the plugin whose generated function the first error lies in (a helper requested
	// by another plugin is that helper's plugin's matter)
	if c := culpritPlugin(f); c != "" {
		pl = c
	}
	return fmt.Sprintf("%s|%s", pl, errShape(firstErrorLine(f.Output)))
}

var firstGenErrRe = regexp.MustCompile(`derived\.gen\.go:(\d+):`)
var funcNameRe = regexp.MustCompile(`^func (derive[A-Za-z0-9_]*)\(`)

func culpritPlugin(f e1Failure) string {
	m := firstGenErrRe.FindStringSubmatch(firstErrorLine(f.Output))
	src := f.Files["p/derived.gen.go"]
	if m == nil || src == "" {
		return ""
	}
	var ln int
	fmt.Sscanf(m[1], "%d", &ln)
	name := ""
	for i, l := range strings.Split(src, "\n") {
		if i+1 > ln {
			break
		}
		if fm := funcNameRe.FindStringSubmatch(l); fm != nil {
			name = fm[1]
		}
	}
	if name == "" {
		return ""
	}
	pl, _ := pluginOf(name, defaultPrefixes())
	return pl
}

// recursive plugin call templates: form -> source. T is the type, ID the case id.
func c01RecCase(id string, t *Ty, plugin, form string) *e1Case {
	T := t.Expr
	c := &e1Case{ID: id, Ty: t, Group: plugin, Tags: map[string]string{"plugin": plugin, "form": form}, Funcs: map[string]string{}}
	call := map[string]string{
		"equal":    "deriveEqual_ID(a, b)",
		"compare":  "deriveCompare_ID(a, b)",
		"hash":     "deriveHash_ID(a)",
		"deepcopy": "deriveDeepCopy_ID(a, b)",
		"clone":    "deriveClone_ID(a)",
		"gostring": "deriveGoString_ID(a)",
	}[plugin]
	ret := map[string]string{"equal": "bool", "compare": "int", "hash": "uint64", "deepcopy": "", "clone": T, "gostring": "string"}[plugin]
	retkw := "return "
	if ret == "" {
		retkw = ""
	}
	sub := func(s string) string { return strings.ReplaceAll(s, "ID", id) }
	switch form {
	case "closure": // closure inside a package-level var's composite literal
		c.Funcs["f"] = sub(fmt.Sprintf("func(a, b %s) %s { %s%s }", T, ret, retkw, call))
	case "funcbody":
		c.Extra = sub(fmt.Sprintf("func use_ID(a, b %s) %s { %s%s }", T, ret, retkw, call))
	case "pkgvar":
		if ret == "" {
			c.Extra = sub(fmt.Sprintf("var a_ID, b_ID %s\nvar v_ID = func() bool { %s; return true }()", T, strings.NewReplacer("(a, b)", "(a_ID, b_ID)", "(a)", "(a_ID)").Replace(call)))
		} else {
			c.Extra = sub(fmt.Sprintf("var a_ID, b_ID %s\nvar v_ID = %s", T, strings.NewReplacer("(a, b)", "(a_ID, b_ID)", "(a)", "(a_ID)").Replace(call)))
		}
	case "test":
		c.TestSrc = sub(fmt.Sprintf("func use_ID(a, b %s) %s { %s%s }", T, ret, retkw, call))
	case "curried":
		switch plugin {
		case "equal":
			c.Funcs["f"] = sub(fmt.Sprintf("func(a %s) func(%s) bool { return deriveEqual_ID(a) }", T, T))
		case "compare":
			c.Funcs["f"] = sub(fmt.Sprintf("func(a %s) func(%s) int { return deriveCompare_ID(a) }", T, T))
		}
	case "nested": // only typeable after a first generation pass
		switch plugin {
		case "equal":
			c.Extra = sub(fmt.Sprintf("func use_ID(a %s) bool { return deriveEqual_ID(deriveClone_ID(a), a) }", T))
		case "compare":
			c.Extra = sub(fmt.Sprintf("func use_ID(a %s) int { return deriveCompare_ID(deriveClone_ID(a), a) }", T))
		case "hash":
			c.Extra = sub(fmt.Sprintf("func use_ID(a %s) uint64 { return deriveHash_ID(deriveClone_ID(a)) }", T))
		case "gostring":
			c.Extra = sub(fmt.Sprintf("func use_ID(a %s) string { return deriveGoString_ID(deriveClone_ID(a)) }", T))
		}
		c.Key = "clone|" + t.AssignKey()
	}
	return c
}

func c01ListCases(idf func() string, t *Ty) []*e1Case {
	var out []*e1Case
	for _, prop := range []string{"C13", "C14"} {
		lc := listCase(prop, "ID", t)
		for role, src := range lc.Funcs {
			if prop == "C14" && role == "equal" || prop == "C13" && role == "compare" {
				continue
			}
			id := idf()
			out = append(out, &e1Case{ID: id, Ty: t, Group: role, Tags: map[string]string{"plugin": role, "form": "closure"},
				Funcs: map[string]string{"f": strings.ReplaceAll(src, "ID", id)}})
		}
	}
	E := t.Expr
	for role, src := range map[string]string{
		"fmap":     fmt.Sprintf("func(f func(%s) %s, l []%s) []%s { return deriveFmap_ID(f, l) }", E, E, E, E),
		"join":     fmt.Sprintf("func(l [][]%s) []%s { return deriveJoin_ID(l) }", E, E),
		"traverse": fmt.Sprintf("func(f func(%s) (%s, error), l []%s) ([]%s, error) { return deriveTraverse_ID(f, l) }", E, E, E, E),
		"mem":      fmt.Sprintf("func(f func(%s) %s) func(%s) %s { return deriveMem_ID(f) }", E, E, E, E),
		"sortkeys": fmt.Sprintf("func(m map[string]%s) []string { return deriveSort_ID(deriveKeys_ID(m)) }", E),
	} {
		id := idf()
		c := &e1Case{ID: id, Ty: t, Group: role, Tags: map[string]string{"plugin": role, "form": "closure"},
			Funcs: map[string]string{"f": strings.ReplaceAll(src, "ID", id)}}
		if role == "sortkeys" {
			// every such case sorts []string: they must not share a package
			c.Tags["form"] = "nested"
			c.Key = "sort|string"
		}
		out = append(out, c)
	}
	return out
}

func checkC01(tier string) {
	rep := newReporter("C01", tier)
	var cases []*e1Case
	n := 0
	idf := func() string { n++; return fmt.Sprintf("c%d", n) }
	ts, bound := recTypes(tier)
	recPlugins := []string{"equal", "compare", "hash", "deepcopy", "clone", "gostring"}
	supported := func(t *Ty, plugin string) bool {
		if t.has("anon") && plugin != "equal" && plugin != "hash" && plugin != "gostring" {
			return false // anonymous struct fields are refused by Compare and DeepCopy (a diagnostic: C09)
		}
		if t.has("alias") && plugin != "gostring" && plugin != "deepcopy" && plugin != "clone" {
			return false // an alias of an unexported struct: Equal, Compare and Hash refuse it with a diagnostic (C09)
		}
		switch plugin {
		case "deepcopy":
			switch t.Kind {
			case "ptr", "slice", "map", "nslice", "nmap":
				return true
			}
			return false
		case "gostring":
			// imported structs with unexported fields are documented as unsupported
			return !t.has("extpriv")
		}
		return true
	}
	for _, t := range ts {
		for _, pl := range recPlugins {
			if supported(t, pl) {
				cases = append(cases, c01RecCase(idf(), t, pl, "closure"))
			}
		}
	}
	for _, t := range ts {
		ft := fieldForm(t)
		for _, pl := range recPlugins {
			if supported(ft, pl) {
				cases = append(cases, c01RecCase(idf(), ft, pl, "closure"))
			}
		}
	}
	// the other call-site forms, over depth <= 1
	formTypes := typesUpTo(1)
	if tier != "thorough" {
		st := structTys()
		formTypes = append(leaves(allBasics), applyAll([]*Ty{basicTy("int"), basicTy("string"), basicTy("float64"), namedBasics()[0], st[0], st[2], st[9]}, []*Ty{basicTy("string"), st[0]}, true)...)
	}
	for _, t := range formTypes {
		for _, pl := range []string{"equal", "compare", "hash", "clone", "gostring", "deepcopy"} {
			if !supported(t, pl) {
				continue
			}
			for _, form := range []string{"funcbody", "pkgvar", "test", "curried", "nested"} {
				if form == "curried" && pl != "equal" && pl != "compare" {
					continue
				}
				if form == "nested" && (pl == "clone" || pl == "deepcopy" || t.has("anon") || t.has("alias")) {
					continue
				}
				cases = append(cases, c01RecCase(idf(), t, pl, form))
			}
		}
	}
	// list helpers over element types
	ets, ebound := elemTypes(tier)
	for _, t := range ets {
		if t.has("user") || t.has("anon") || t.has("alias") {
			continue
		}
		cases = append(cases, c01ListCases(idf, t)...)
	}
	// import-sensitive programs, each alone in its package (in a batch another case
	// would use the same import and mask an unused or missing one)
	{
		st := map[string]*Ty{}
		for _, x := range append(structTys(), namedBasics()...) {
			st[x.Expr] = x
		}
		for _, name := range []string{"ext.Pub", "ext.Priv", "ext.Cmp", "ext.Pt", "ext.Level", "ext2.Pub", "Two"} {
			base := st[name]
			for _, t := range []*Ty{base, ptrOf(base), sliceOf(base), fieldForm(base), fieldForm(ptrOf(base)), fieldForm(mapOf(basicTy("string"), base))} {
				for _, pl := range recPlugins {
					if supported(t, pl) {
						c := c01RecCase(idf(), t, pl, "closure")
						c.Isolated = true
						c.Tags["form"] = "alone-in-package"
						cases = append(cases, c)
					}
				}
			}
		}
	}
	// three-level nesting: each inner result only becomes typeable one pass later
	for _, k := range leaves(allBasics) {
		if !k.Comparable || k.has("user") || k.has("ext") || k.has("ext2") || k.Expr == "MyBool" {
			continue
		}
		id := idf()
		K := k.Expr
		src := strings.ReplaceAll(fmt.Sprintf("func use_ID(m map[%s]int, w []%s) bool { return deriveEqual_ID(deriveSort_ID(deriveKeys_ID(m)), w) }", K, K), "ID", id)
		ak := k.AssignKey()
		cases = append(cases, &e1Case{ID: id, Zero: "(*int)(nil)", Extra: src, Key: "equal|[]" + ak + "\x00sort|" + ak + "\x00keys|map[" + ak + "]int",
			Tags: map[string]string{"plugin": "equal+sort+keys", "form": "nested3", "sig": "Equal(Sort(Keys(map[" + K + "]int)), []" + K + ")"}})
	}
	// name pressure: user functions that are called and are named like the first helper names goderive would mint
	for _, pl := range []struct{ prefix, call, body string }{
		{"deriveEqual", "deriveEqual_ID(a, b)", "bool"},
		{"deriveCompare", "deriveCompare_ID(a, b)", "int"},
		{"deriveHash", "deriveHash_ID(a)", "uint64"},
		{"deriveGoString", "deriveGoString_ID(a)", "string"},
	} {
		id := idf()
		helper := func(name string) string {
			return fmt.Sprintf("func %s%s(x int) int { return x }\nvar _ = %s%s(1)\n", pl.prefix, name, pl.prefix, name)
		}
		extra := helper("") + helper("_") + helper("_H") + helper("_1") +
			strings.ReplaceAll(fmt.Sprintf("func use_ID(a, b *Heap, this, that, f *Emb) %s { return %s }", pl.body, pl.call), "ID", id)
		cases = append(cases, &e1Case{ID: id, Zero: "(*int)(nil)", Key: "namepressure|" + pl.prefix, Extra: extra, Tags: map[string]string{"plugin": strings.ToLower(strings.TrimPrefix(pl.prefix, "derive")), "form": "name-pressure"}})
	}
	// chains of four, five and six nested calls: one more generate/reload round each
	for n, chain := range []string{
		"func use_ID(w []string) []string { return deriveSort_ID(deriveKeys_ID(deriveSet_ID(deriveFmap_ID(up_ID, w)))) }",
		"func use_ID(w []string) []string { return deriveUnique_ID(deriveSort_ID(deriveKeys_ID(deriveSet_ID(deriveFmap_ID(up_ID, w))))) }",
		"func use_ID(w []string) bool { return deriveContains_ID(deriveUnique_ID(deriveSort_ID(deriveKeys_ID(deriveSet_ID(deriveFmap_ID(up_ID, w))))), \"a\") }",
	} {
		id := idf()
		cases = append(cases, &e1Case{ID: id, Zero: "(*int)(nil)", Isolated: true, Extra: strings.ReplaceAll("func up_ID(s string) string { return s }\n"+chain, "ID", id),
			Tags: map[string]string{"plugin": "chain", "form": fmt.Sprintf("nested%d", n+4)}})
	}
	// a call in an in-package _test file next to a call that needs a second pass (and the
	// reverse: the late call in the _test file), each pair alone in its package
	for _, pl := range []struct{ plain, late string }{
		{"func plain_ID(a, b *Rec) bool { return deriveEqual_ID(a, b) }", "func late_ID(m map[string]int, w []string) bool { return deriveEqualL_ID(deriveSort_ID(deriveKeys_ID(m)), w) }"},
		{"func plain_ID(a, b []Heap) int { return deriveCompare_ID(a, b) }", "func late_ID(a *Heap) int { return deriveCompareL_ID(deriveClone_ID(a), a) }"},
		{"func plain_ID(a Emb) uint64 { return deriveHash_ID(a) }", "func late_ID(a []Flat) uint64 { return deriveHashL_ID(deriveClone_ID(a)) }"},
		{"func plain_ID(a map[string]Rec) string { return deriveGoString_ID(a) }", "func late_ID(a *Emb) string { return deriveGoStringL_ID(deriveClone_ID(a)) }"},
	} {
		for _, where := range []string{"plain-in-test", "late-in-test", "both-in-test"} {
			id := idf()
			c := &e1Case{ID: id, Zero: "(*int)(nil)", Isolated: true, Tags: map[string]string{"plugin": "mixed", "form": "test+second-pass/" + where}}
			pt, lt := strings.ReplaceAll(pl.plain, "ID", id), strings.ReplaceAll(pl.late, "ID", id)
			switch where {
			case "plain-in-test":
				c.TestSrc, c.Extra = pt, lt
			case "late-in-test":
				c.TestSrc, c.Extra = lt, pt
			default:
				c.TestSrc = pt + "\n" + lt
			}
			cases = append(cases, c)
		}
	}
	// two named slice types with one underlying type: one is an argument type, the other a field type
	for _, pl := range []struct{ name, call1, call2 string }{
		{"equal", "deriveEqual_ID(a, b)", "deriveEqualNS_ID(x, y)"},
		{"compare", "deriveCompare_ID(a, b) == 0", "deriveCompareNS_ID(x, y) == 0"},
		{"hash", "deriveHash_ID(a) == 0", "deriveHashNS_ID(x) == 0"},
		{"gostring", "deriveGoString_ID(a) == \"\"", "deriveGoStringNS_ID(x) == \"\""},
		{"deepcopy", "func() bool { deriveDeepCopy_ID(a, b); return true }()", "func() bool { deriveDeepCopyNS_ID(x, y); return true }()"},
	} {
		id := idf()
		src := "type TwA_ID []Flat\ntype TwB_ID []Flat\ntype TwS_ID struct {\n\tOutline TwA_ID\n\tN int\n}\n" +
			"func twin_ID(a, b *TwS_ID, x, y TwB_ID) bool { return " + pl.call1 + " && " + pl.call2 + " }\n"
		cases = append(cases, &e1Case{ID: id, Zero: "(*int)(nil)", Isolated: true, Extra: strings.ReplaceAll(src, "ID", id),
			Tags: map[string]string{"plugin": pl.name, "form": "named-slice-twins"}})
	}
	// late names: the user names a call that only becomes typeable in pass 2 exactly like
	// a helper that pass 1 mints (prefix_, prefix_1) for another type; alone in the package
	for _, pl := range []struct{ prefix, main, late, body string }{
		{"deriveEqual", "deriveEqual(a, b)", "deriveEqualNAME(deriveSort_ID(deriveKeys_ID(m)), w)", "bool"},
		{"deriveCompare", "deriveCompare(a, b) == 0", "deriveCompareNAME(deriveSort_ID(deriveKeys_ID(m)), w) == 0", "bool"},
		{"deriveHash", "deriveHash(a) == 0", "deriveHashNAME(deriveSort_ID(deriveKeys_ID(m))) == 0", "bool"},
		{"deriveGoString", "deriveGoString(a) == \"\"", "deriveGoStringNAME(deriveSort_ID(deriveKeys_ID(m))) == \"\"", "bool"},
		{"deriveDeepCopy", "func() bool { deriveDeepCopy(a, b); return true }()", "func() bool { deriveDeepCopyNAME(w, deriveSort_ID(deriveKeys_ID(m))); return true }()", "bool"},
	} {
		for _, name := range []string{"_", "_1"} {
			for _, order := range []string{"main-first", "late-first"} {
				id := idf()
				fm := fmt.Sprintf("func main_ID(a, b *Rec) %s { return %s }\n", pl.body, pl.main)
				fl := fmt.Sprintf("func late_ID(m map[int]bool, w []int) %s { return %s }\n", pl.body, strings.ReplaceAll(pl.late, "NAME", name))
				src := fm + fl
				if order == "late-first" {
					src = fl + fm
				}
				cases = append(cases, &e1Case{ID: id, Zero: "(*int)(nil)", Isolated: true, Extra: strings.ReplaceAll(src, "ID", id),
					Tags: map[string]string{"plugin": strings.ToLower(strings.TrimPrefix(pl.prefix, "derive")), "form": "late-name" + name + "/" + order}})
			}
		}
	}
	res := runE1(cases, "C01", 60, nil, 1)
	aggregateE1(rep, "C01", cases, res, bound+"; x {Equal, Compare, Hash, DeepCopy, Clone, GoString}; call-site forms {closure in a package-level var, function body, package-level var initialiser, in-package _test file, one-argument curried form, nested derive call typeable only after a first pass} over depth <= 1; list helpers {Sort, Keys, Min, Max, Contains, Unique, Set, Union, Intersect, Filter, TakeWhile, All, Any, Fmap, Join, Traverse, Mem, Sort(Keys())} over "+ebound+"; name-pressure packages; a named slice type as argument next to another named slice type with the same underlying type as a field (5 plugins); chains of 4, 5 and 6 nested calls; _test-file calls next to calls needing a second pass; late-typeable calls named like a minted helper (prefix_, prefix_1) x {Equal, Compare, Hash, GoString, DeepCopy} x both source orders; both same-named imports appear together in the batches",
		"state = one program: (type shape, plugin, call-site form), placed in a scenario package with up to 59 others; transition = one run of the real goderive on the package plus one run of the Go type checker (go build / go test -run ^$ for the _test form) on sources + derived.gen.go, including bisection and confirmation runs that isolate a failing program; the oracle is exit 0 and zero compiler errors (covers unresolved, redeclared and not-assignable calls, missing and unused imports); non-trivial = every program")
	rep.Cov["distinct_nontrivial"] = len(cases) - len(res.Failures)
	rep.Cov["multi_package_runs"] = c01MultiPackage(rep)
	rep.Finish()
}

// c01MultiPackage: several packages in one invocation, some of which need further passes for
// textually identical calls; every one of them must come out complete.
func c01MultiPackage(rep *Reporter) int {
	nested := func(pkg string) string {
		return "package " + pkg + "\n\nfunc keys(m map[string]int) []string {\n\treturn deriveSort(deriveKeys(m))\n}\n"
	}
	deep := func(pkg string) string {
		return "package " + pkg + "\n\nfunc same(m map[string]int, w []string) bool {\n\treturn deriveEqual(deriveSort(deriveKeys(m)), w)\n}\n"
	}
	flat := func(pkg string) string {
		return "package " + pkg + "\n\ntype S struct {\n\tA int\n\tB []string\n}\n\nfunc same(a, b *S) bool {\n\treturn deriveEqual(a, b)\n}\n"
	}
	scen := []struct {
		name  string
		files pkgFiles
		pkgs  []string
	}{
		{"two-packages-same-nested-call", pkgFiles{"a/a.go": nested("a"), "b/b.go": nested("b")}, []string{"a", "b"}},
		{"three-packages-same-nested-call", pkgFiles{"a/a.go": nested("a"), "b/b.go": nested("b"), "c/c.go": nested("c")}, []string{"a", "b", "c"}},
		{"deep-nested-flat", pkgFiles{"a/a.go": deep("a"), "b/b.go": nested("b"), "c/c.go": flat("c")}, []string{"a", "b", "c"}},
		{"same-deep-call-twice-and-flat", pkgFiles{"a/a.go": deep("a"), "b/b.go": deep("b"), "c/c.go": flat("c")}, []string{"a", "b", "c"}},
		{"nested-with-test-file-call", pkgFiles{"a/a.go": nested("a"), "a/a_test.go": "package a\n\nfunc sameT(x, y []string) bool {\n\treturn deriveEqual(x, y)\n}\n", "b/b.go": nested("b")}, []string{"a", "b"}},
	}
	type item struct {
		sc   int
		args []string
	}
	var items []item
	for i, sc := range scen {
		items = append(items, item{i, []string{"./..."}})
		for _, perm := range permutations(sc.pkgs) {
			var rel, imp []string
			for _, p := range perm {
				rel = append(rel, "./"+p)
				imp = append(imp, "example.com/m/"+p)
			}
			items = append(items, item{i, rel}, item{i, imp})
		}
	}
	// the loader hands the packages over in an order of its own: every invocation three times
	items = append(append(append([]item(nil), items...), items...), items...)
	parDo(len(items), func(i int) {
		it := items[i]
		sc := scen[it.sc]
		dir := filepath.Join(scratchDir, "c01mp", fmt.Sprintf("m%04d", i))
		writePkg(dir, sc.files)
		defer removeAll(dir)
		r := goderive(dir, it.args...)
		replay := map[string]interface{}{"engine": "e2", "files": sc.files, "args": it.args}
		if r.Exit != 0 {
			rep.Violation("does-not-generate-together|"+sc.name, fmt.Sprintf("goderive %s fails on packages that generate one by one: %s", strings.Join(it.args, " "), head(firstErrorLine(r.Stderr), 200)), replay)
			return
		}
		for _, p := range sc.pkgs {
			if cp := typeCheckDir(filepath.Join(dir, p), true, nil); len(cp.Errors) > 0 {
				rep.Violation("does-not-compile-together|"+sc.name, fmt.Sprintf("after goderive %s package %s does not type-check: %s", strings.Join(it.args, " "), p, shortErrs(cp.Errors)), replay)
				return
			}
		}
	})
	return len(items)
}
