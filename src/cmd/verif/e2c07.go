package main

import (
	"crypto/sha256"
	"fmt"
	"os"
	"path/filepath"
	"sort"
	"strings"
	"sync"
)

func init() {
	checks["C07"] = checkC07
}

type c07version struct {
	name  string
	files pkgFiles
}

// family A: recursive plugins, no imports needed by the generated code
func c07FamilyA() []c07version {
	mk := func(name, body string) c07version {
		return c07version{name, pkgFiles{"a.go": "package m\n\n" + body}}
	}
	return []c07version{
		mk("A1-base", "type S struct {\n\tA int\n\tB []string\n}\n\nfunc use(a, b *S) bool {\n\treturn deriveEqual(a, b)\n}\n"),
		mk("A2-field-retyped", "type S struct {\n\tA int\n\tB map[string]int\n}\n\nfunc use(a, b *S) bool {\n\treturn deriveEqual(a, b)\n}\n"),
		mk("A3-field-added-recursive", "type S struct {\n\tA int\n\tB map[string]int\n\tC *S\n}\n\nfunc use(a, b *S) bool {\n\treturn deriveEqual(a, b)\n}\n"),
		mk("A4-type-renamed", "type R struct {\n\tA int\n\tB map[string]int\n\tC *R\n}\n\nfunc use(a, b *R) bool {\n\treturn deriveEqual(a, b)\n}\n"),
		mk("A5-call-added-feeding-another", "type R struct {\n\tA int\n\tB map[string]int\n\tC *R\n}\n\nfunc use(a, b *R) bool {\n\treturn deriveEqual(a, b)\n}\n\nfunc use2(x *R) bool {\n\treturn deriveEqual(deriveClone(x), x)\n}\n"),
		mk("A6-fed-type-changed", "type R struct {\n\tA int\n\tB map[string]int\n\tC *R\n}\n\nfunc use(a, b *R) bool {\n\treturn deriveEqual(a, b)\n}\n\nfunc use2(x []R) bool {\n\treturn deriveEqualC(deriveClone(x), x)\n}\n"),
		mk("A7-call-removed", "type R struct {\n\tA int\n\tB map[string]int\n\tC *R\n}\n\nfunc use2(x []R) []R {\n\treturn deriveClone(x)\n}\n"),
		{"A7t-call-in-test-file-and-nested-call", pkgFiles{"a.go": "package m\n\ntype R struct {\n\tA int\n\tB map[string]int\n\tC *R\n}\n\nfunc use2(x []R) bool {\n\treturn deriveEqualC(deriveClone(x), x)\n}\n",
			"a_test.go": "package m\n\nfunc useT(a, b *R) bool {\n\treturn deriveEqual(a, b)\n}\n"}},
		// an external test package lives in the same directory and has no derive calls of its own
		{"A7x-external-test-package", pkgFiles{"a.go": "package m\n\ntype R struct {\n\tA int\n\tB map[string]int\n\tC *R\n}\n\nfunc use2(x []R) []R {\n\treturn deriveClone(x)\n}\n",
			"x_test.go": "package m_test\n\nvar Sink = 1\n"}},
		mk("A8-no-derive-calls", "type R struct {\n\tA int\n\tB map[string]int\n\tC *R\n}\n\nfunc use2(x []R) []R {\n\treturn x\n}\n"),
		// a second call of the same plugin joins the first one on its source line
		mk("A1b-second-call-on-the-same-line", "type S struct {\n\tA int\n\tB []string\n}\n\ntype S2 struct {\n\tC map[string]int\n}\n\nfunc use(a, b *S, x, y *S2) bool {\n\treturn deriveEqual(a, b) && deriveEqualB(x, y)\n}\n"),
		// the function a call resolved to is written by hand now: no derive call is left
		mk("A9-generated-function-now-hand-written", "type S struct {\n\tA int\n\tB []string\n}\n\nfunc use(a, b *S) bool {\n\treturn deriveEqual(a, b)\n}\n\n// written by hand now\nfunc deriveEqual(a, b *S) bool {\n\treturn a == b\n}\n"),
		{"A9z-generated-function-now-hand-written-in-a-file-sorting-after-derived.gen.go", pkgFiles{"main.go": "package m\n\ntype S struct {\n\tA int\n\tB []string\n}\n\nfunc use(a, b *S) bool {\n\treturn deriveEqual(a, b)\n}\n\n// written by hand now\nfunc deriveEqual(a, b *S) bool {\n\treturn a == b\n}\n"}},
	}
}

// family B: functional plugins whose results flow into each other (imports sort/strconv)
func c07FamilyB() []c07version {
	mk := func(name, body string) c07version {
		return c07version{name, pkgFiles{"a.go": "package m\n\n" + body}}
	}
	return []c07version{
		mk("B1-sort-of-keys", "func use(m map[string]int) []string {\n\treturn deriveSort(deriveKeys(m))\n}\n"),
		mk("B2-key-type-changed", "func use(m map[int]int) []int {\n\treturn deriveSort(deriveKeys(m))\n}\n"),
		mk("B3-third-stage-added", "func itoa(i int) string { return \"x\" }\n\nfunc use(m map[int]int) []string {\n\treturn deriveFmap(itoa, deriveSort(deriveKeys(m)))\n}\n"),
		mk("B4-key-type-named", "type K int\n\nfunc ktoa(i K) string { return \"x\" }\n\nfunc use(m map[K]int) []string {\n\treturn deriveFmap(ktoa, deriveSort(deriveKeys(m)))\n}\n"),
		mk("B5-call-in-second-file", "type K int\n\nfunc ktoa(i K) string { return \"x\" }\n\nfunc use(m map[K]int) []string {\n\treturn deriveFmap(ktoa, deriveSort(deriveKeys(m)))\n}\n"),
		mk("B6-no-derive-calls", "type K int\n\nfunc use(m map[K]int) int {\n\treturn len(m)\n}\n"),
	}
}

// family C: two calls of one plugin; removing the second one makes the new
// output a strict byte prefix of the old one
func c07FamilyC() []c07version {
	mk := func(name, body string) c07version {
		return c07version{name, pkgFiles{"a.go": "package m\n\n" + body}}
	}
	types := "type S struct {\n\tA int\n\tB []string\n}\n\ntype T struct {\n\tX map[string]int\n}\n\n"
	return []c07version{
		mk("C1-two-calls", types+"func use(a, b *S, c, d *T) bool {\n\treturn deriveEqualA(a, b) && deriveEqualB(c, d)\n}\n"),
		mk("C2-second-call-removed", types+"func use(a, b *S, c, d *T) bool {\n\treturn deriveEqualA(a, b)\n}\n"),
		mk("C3-first-call-removed", types+"func use(a, b *S, c, d *T) bool {\n\treturn deriveEqualB(c, d)\n}\n"),
		mk("C4-no-derive-calls", types+"func use(a, b *S, c, d *T) bool {\n\treturn a == b && c == d\n}\n"),
	}
}

// remnantClass names where a truncation offset lies in a derived.gen.go.
func remnantClass(full string, k int) string {
	if k == 0 {
		return "empty-file"
	}
	if k >= len(full) {
		return "whole-file"
	}
	pkgEnd := strings.Index(full, "\npackage ")
	if pkgEnd >= 0 {
		if nl := strings.IndexByte(full[pkgEnd+1:], '\n'); nl >= 0 {
			pkgEnd = pkgEnd + 1 + nl + 1
		}
	}
	if k < pkgEnd {
		return "cut-in-header-or-package-clause"
	}
	// line holding the last kept byte
	ls := strings.LastIndexByte(full[:k], '\n') + 1
	le := strings.IndexByte(full[ls:], '\n')
	line := full[ls:]
	if le >= 0 {
		line = full[ls : ls+le]
	}
	atLineEnd := k == ls+len(line)+1 || (k == ls && ls > 0)
	if full[k-1] == '\n' {
		// cut exactly after a line: classify by the structure that is open
		before := full[:k]
		if strings.Count(before, "import (") > strings.Count(before, "\n)\n") && strings.Contains(before, "import (") && !strings.Contains(before[strings.LastIndex(before, "import ("):], "\n)\n") {
			return "cut-inside-import-block"
		}
		if openBraces(before) > 0 {
			return "cut-between-lines-inside-a-function"
		}
		return "cut-between-declarations"
	}
	_ = atLineEnd
	switch {
	case strings.HasPrefix(line, "import") || strings.HasPrefix(line, "\t\"") || (strings.HasPrefix(line, ")") && strings.Contains(full[:ls], "import (") && !strings.Contains(full[strings.LastIndex(full[:ls], "import ("):ls], "\n)\n")):
		return "cut-inside-import-block"
	case strings.HasPrefix(line, "//"):
		return "cut-inside-doc-comment"
	case strings.HasPrefix(line, "func "):
		return "cut-inside-function-signature"
	default:
		return "cut-inside-function-body"
	}
}

func openBraces(s string) int {
	n := 0
	for _, r := range s {
		switch r {
		case '{':
			n++
		case '}':
			n--
		}
	}
	return n
}

// family D: long chains of derive calls, each typeable only one pass after the
// one it wraps (four and five generate/reload rounds)
func c07FamilyD() []c07version {
	mk := func(name, body string) c07version {
		return c07version{name, pkgFiles{"a.go": "package m\n\nfunc up(s string) string { return s + \"!\" }\n\n" + body}}
	}
	return []c07version{
		mk("D1-chain-of-four", "func use(words []string) []string {\n\treturn deriveSort(deriveKeys(deriveSet(deriveFmap(up, words))))\n}\n"),
		mk("D2-chain-of-five", "func use(words []string) []string {\n\treturn deriveUnique(deriveSort(deriveKeys(deriveSet(deriveFmap(up, words)))))\n}\n"),
		mk("D3-chain-of-two", "func use(words []string) map[string]struct{} {\n\treturn deriveSet(deriveFmap(up, words))\n}\n"),
		mk("D4-chain-of-six", "func use(words []string) bool {\n\treturn deriveContains(deriveUnique(deriveSort(deriveKeys(deriveSet(deriveFmap(up, words))))), \"a!\")\n}\n"),
		mk("D6-chain-of-three-without-the-innermost-stage", "func use(words []string) []string {\n\treturn deriveSort(deriveKeys(deriveSet(words)))\n}\n"),
		mk("D7-chain-of-two-outer-stages", "func use(m map[string]struct{}) []string {\n\treturn deriveSort(deriveKeys(m))\n}\n"),
		mk("D5-no-derive-calls", "func use(words []string) int {\n\treturn len(words)\n}\n"),
	}
}

// families E (-autoname) and F (-dedup): clashing calls are added and removed
// again; the run renames calls in the sources, derived.gen.go must still only
// depend on the sources it was started on
func c07FamilyE(n1, n2, n3, t1, t2, t3 string) []c07version {
	types := "type A struct {\n\tX int\n\tS []string\n}\n\ntype B struct {\n\tM map[string]int\n}\n\ntype C struct {\n\tP *int\n\tL []B\n}\n\n"
	call := func(fn, name, typ string) string {
		return fmt.Sprintf("func %s(x, y %s) bool {\n\treturn %s(x, y)\n}\n\n", fn, typ, name)
	}
	one := func(body string) pkgFiles { return pkgFiles{"a.go": "package m\n\n" + types + body} }
	return []c07version{
		{"1-one-call", one(call("use1", n1, t1))},
		{"2-clashing-call-added-in-the-same-file", one(call("use1", n1, t1) + call("use2", n2, t2))},
		{"3-third-clashing-call-in-a-second-file", pkgFiles{"a.go": "package m\n\n" + types + call("use1", n1, t1) + call("use2", n2, t2), "b.go": "package m\n\n" + call("use3", n3, t3)}},
		{"4-first-call-removed", pkgFiles{"a.go": "package m\n\n" + types + call("use2", n2, t2), "b.go": "package m\n\n" + call("use3", n3, t3)}},
		{"5-no-derive-calls", one("func use1(x, y *A) bool {\n\treturn x == y\n}\n")},
	}
}

func checkC07(tier string) {
	rep := newReporter("C07", tier)
	var mu sync.Mutex
	type famT struct {
		name      string
		versions  []c07version
		everyByte func(i int) bool // versions whose every byte prefix is a node
		allPairs  bool
		flags     []string
	}
	famA, famB := c07FamilyA(), c07FamilyB()
	fams := []famT{
		{"C", c07FamilyC(), func(i int) bool { return true }, true, nil},
		{"A", famA, func(i int) bool { return tier == "thorough" || i == 0 || i == 6 }, tier == "thorough", nil},
		{"B", famB, func(i int) bool { return tier == "thorough" || i == 0 }, tier == "thorough", nil},
		{"D", c07FamilyD(), func(i int) bool { return tier == "thorough" || i == 0 }, tier == "thorough", nil},
		{"E", c07FamilyE("deriveEqual", "deriveEqual", "deriveEqual", "*A", "*B", "*C"), func(i int) bool { return tier == "thorough" || i == 0 }, true, []string{"-autoname"}},
		{"F", c07FamilyE("deriveEqualA", "deriveEqualB", "deriveEqualC", "*A", "*A", "*A"), func(i int) bool { return tier == "thorough" || i == 0 }, true, []string{"-dedup"}},
	}
	totalNodes, totalEdges := 0, 0
	outcomes := map[string]int{}
	for _, fam := range fams {
		n := len(fam.versions)
		// from-scratch outputs, three times each (the bytes must not vary)
		scratch := make([]string, n) // "" = absent
		for i, v := range fam.versions {
			for rep3 := 0; rep3 < 3; rep3++ {
				dir := filepath.Join(scratchDir, "c07", fmt.Sprintf("scratch-%s-%d-%d", fam.name, i, rep3))
				writePkg(dir, v.files)
				r := goderive(dir, append(append([]string{}, fam.flags...), ".")...)
				got := readFileOr(filepath.Join(dir, "derived.gen.go"), "")
				if r.Exit != 0 {
					rep.Violation("from-scratch-run-fails|"+v.name, fmt.Sprintf("version %s cannot be generated from scratch: %s", v.name, head(firstErrorLine(r.Stderr), 200)), map[string]interface{}{"engine": "e2", "files": v.files})
				}
				if rep3 > 0 && got != scratch[i] {
					rep.Violation("from-scratch-output-varies|"+v.name, "two from-scratch runs gave different bytes for "+v.name, map[string]interface{}{"engine": "e2", "files": v.files})
				}
				scratch[i] = got
				if r.Exit == 0 {
					if cp := typeCheckDir(dir, true, nil); len(cp.Errors) > 0 {
						rep.Violation("from-scratch-output-does-not-type-check|"+v.name, shortErrs(cp.Errors), map[string]interface{}{"engine": "e2", "files": v.files})
					}
				}
				removeAll(dir)
			}
		}
		// nodes
		type node struct {
			bytes  *string // nil = absent
			origin int     // version whose output it is (a prefix of)
			k      int
			class  string
		}
		var nodes []node
		seen := map[[32]byte]bool{}
		addNode := func(b *string, origin, k int, class string) {
			var h [32]byte
			if b == nil {
				h = sha256.Sum256([]byte("\x00absent"))
			} else {
				h = sha256.Sum256([]byte("\x01" + *b))
			}
			if seen[h] {
				return
			}
			seen[h] = true
			nodes = append(nodes, node{b, origin, k, class})
		}
		addNode(nil, -1, 0, "absent")
		for i := range fam.versions {
			if scratch[i] != "" {
				s := scratch[i]
				addNode(&s, i, len(s), "whole-file")
			}
		}
		for i := range fam.versions {
			if scratch[i] == "" || !fam.everyByte(i) {
				continue
			}
			for k := 0; k < len(scratch[i]); k++ {
				p := scratch[i][:k]
				addNode(&p, i, k, remnantClass(scratch[i], k))
			}
		}
		// edges
		type edge struct {
			nd, to int
			sub    bool // package in a subdirectory, goderive ./... run from the module root
		}
		var edges []edge
		for ni, nd := range nodes {
			for to := 0; to < n; to++ {
				whole := nd.class == "absent" || nd.class == "whole-file"
				if whole || fam.allPairs || to == nd.origin || to == nd.origin+1 || to == nd.origin-1 {
					if whole {
						edges = append(edges, edge{ni, to, false}, edge{ni, to, true})
					} else {
						edges = append(edges, edge{ni, to, fam.name == "A"})
					}
				}
			}
		}
		totalNodes += len(nodes)
		totalEdges += len(edges)
		fmt.Fprintf(os.Stderr, "  [C07] family %s: %d versions, %d nodes, %d edges\n", fam.name, n, len(nodes), len(edges))
		newBytes := map[string]bool{}
		parDo(len(edges), func(ei int) {
			e := edges[ei]
			nd, v := nodes[e.nd], fam.versions[e.to]
			dir := filepath.Join(scratchDir, "c07", fmt.Sprintf("e-%s-%07d", fam.name, ei))
			pdir, gargs, mode := dir, []string{"."}, "in-package-dir"
			if e.sub {
				fs := pkgFiles{}
				for n, c := range v.files {
					fs["geom/"+n] = c
				}
				writePkg(dir, fs)
				pdir, gargs, mode = filepath.Join(dir, "geom"), []string{"./..."}, "from-module-root"
			} else {
				writePkg(dir, v.files)
			}
			defer removeAll(dir)
			if nd.bytes != nil {
				writeFile(filepath.Join(pdir, "derived.gen.go"), *nd.bytes)
			}
			r := goderive(dir, append(append([]string{}, fam.flags...), gargs...)...)
			gotB, err := os.ReadFile(filepath.Join(pdir, "derived.gen.go"))
			got, present := string(gotB), err == nil
			rel := "other-version"
			switch {
			case nd.origin == e.to:
				rel = "same-version"
			case nd.origin >= 0 && nd.origin+1 == e.to:
				rel = "previous-version"
			case nd.origin >= 0 && nd.origin-1 == e.to:
				rel = "next-version"
			case nd.origin < 0:
				rel = "none"
			}
			from := "absent"
			if nd.origin >= 0 {
				from = fam.versions[nd.origin].name
			}
			viol := func(clause, what string) {
				key := fmt.Sprintf("%s|remnant=%s|of=%s|sources=%s", clause, nd.class, from, v.name)
				if nd.class != "whole-file" && nd.class != "absent" {
					// crash remnants are classed by where the cut lies and whether the sources changed since
					ed := "sources-unchanged"
					if nd.origin != e.to {
						ed = "sources-changed"
					}
					key = fmt.Sprintf("%s|remnant=%s|family=%s|%s", clause, nd.class, fam.name, ed)
				}
				var rem interface{}
				if nd.bytes != nil {
					rem = *nd.bytes
				}
				rep.Violation(key, fmt.Sprintf("%s: sources %s, derived.gen.go before the run = %s (first %d bytes of the output for %s): %s; goderive exit %d: %s", clause, v.name, nd.class, nd.k, from, what, r.Exit, head(firstErrorLine(r.Stderr), 200)),
					map[string]interface{}{"engine": "e2", "files": v.files, "derived_before": rem, "crash_offset": nd.k, "relation": rel, "args": gargs, "invocation": mode})
			}
			oc := "ok"
			switch {
			case r.TimedOut || strings.Contains(r.Stderr, "panic:"):
				viol("crash", "goderive panicked or hung")
				oc = "crash"
			case r.Exit != 0:
				viol("run-fails", "one run does not suffice: goderive fails")
				oc = "run-fails"
			case scratch[e.to] == "" && present:
				viol("stale-file-not-removed", "no derive calls remain but derived.gen.go is still there")
				oc = "stale"
			case scratch[e.to] != "" && !present:
				viol("no-file-written", "derived.gen.go missing after a successful run")
				oc = "missing"
			case got != scratch[e.to]:
				viol("bytes-differ-from-scratch", "result is not the from-scratch output: "+firstDiff([]byte(scratch[e.to]), []byte(got)))
				oc = "differs"
				mu.Lock()
				newBytes[got] = true
				mu.Unlock()
			}
			mu.Lock()
			outcomes[oc]++
			mu.Unlock()
		})
		rep.Cov["new_states_reached_family_"+fam.name] = len(newBytes)
		if len(fam.versions) > 0 {
			rep.Sample(map[string]interface{}{"family": fam.name, "version": fam.versions[len(fam.versions)/2].name, "sources": fam.versions[len(fam.versions)/2].files, "from_scratch_output_bytes": len(scratch[len(fam.versions)/2])})
		}
	}
	rep.Cov["states"] = totalNodes
	rep.Cov["transitions"] = totalEdges
	rep.Cov["traces_validated_against_impl"] = totalEdges
	rep.Cov["evaluations"] = totalEdges
	rep.Cov["distinct_nontrivial"] = totalNodes
	oks := []string{}
	for k := range outcomes {
		oks = append(oks, k)
	}
	sort.Strings(oks)
	rep.Cov["distinct_outcomes"] = outcomes
	rep.Cov["rule"] = "explicit-state search: a node is the content of derived.gen.go (absent; the from-scratch output of every source version; every byte prefix k = 0..len-1 of the selected outputs, i.e. every crash point of an interrupted write of the previous or of the new output), deduplicated by SHA-256; an edge runs the real goderive once on the sources of a version with that derived.gen.go in place; oracle: exit 0, resulting bytes identical to the from-scratch output of that version (file absent when no derive calls remain); from-scratch outputs are generated three times (must not vary) and type-checked; three version families (recursive plugins with field retyping/adding, type renaming, call adding/removing, a derive result feeding another derive call whose type changes; functional plugins Sort(Keys(m)) / Fmap(..., Sort(Keys(m))) with the key type changing); non-trivial = distinct nodes"
	if tier == "thorough" {
		rep.Cov["bound"] = "every byte prefix of every output x every version of the same family (all pairs)"
	} else {
		rep.Cov["bound"] = "whole-file and absent nodes x every version (all pairs); every byte prefix of the outputs of A1, A7 and B1 x {same, previous, next version}; family C (two calls of one plugin, one removed): every byte prefix x all versions; family D (chains of 2, 4, 5 and 6 nested derive calls): whole-file and absent nodes x all pairs, every byte prefix of D1 x {same, next}; families E (-autoname: conflicting calls added / removed) and F (-dedup: duplicate names added / removed): whole-file and absent nodes x all pairs, every byte prefix of the first version x all versions [every byte prefix of every version]"
	}
	rep.Cov["exhaustive"] = true
	rep.Assume = append(rep.Assume, "a crash is modelled as 'file holds the first k bytes' for every k; torn sector writes are not modelled")
	rep.Finish()
}
