package main

import (
	"fmt"
)

func init() {
	checks["C13"] = func(tier string) { checkList("C13", tier) }
	checks["C14"] = func(tier string) { checkList("C14", tier) }
}

// elemTypes is the element/key type alphabet of the list helpers.
func elemTypes(tier string) ([]*Ty, string) {
	if tier == "thorough" {
		ts := typesUpTo(1)
		seen := map[string]bool{}
		for _, t := range ts {
			seen[t.Expr] = true
		}
		for _, t := range depth2Selection() {
			if !seen[t.Expr] {
				seen[t.Expr] = true
				ts = append(ts, t)
			}
		}
		return ts, "element types: every type of constructor depth <= 1 over the full basic alphabet plus the depth-2 selection"
	}
	ts := leaves(allBasics)
	st := structTys()
	byName := map[string]*Ty{}
	for _, s := range st {
		byName[s.Expr] = s
	}
	base := []*Ty{basicTy("int"), basicTy("string"), basicTy("float64"), basicTy("uint8"), namedBasics()[0], byName["Flat"], byName["Heap"], byName["ext.Priv"], byName["Rec"]}
	ts = append(ts, applyAll(base, []*Ty{basicTy("string"), byName["Flat"]}, true)...)
	return ts, "element types: all leaves (every basic kind, named basics, 12 named structs) plus every constructor over {int,string,float64,uint8,MyInt,Flat,Heap,ext.Priv,Rec}"
}

func unorderedBasic(t *Ty) bool {
	return t.Kind == "basic" && !t.Ordered
}

func listCase(prop, id string, t *Ty) *e1Case {
	E := t.Expr
	c := &e1Case{ID: id, Ty: t, Funcs: map[string]string{}}
	f := func(role, src string) { c.Funcs[role] = src }
	switch prop {
	case "C13":
		f("sort", fmt.Sprintf("func(l []%s) []%s { return deriveSort_%s(l) }", E, E, id))
		if !(t.Kind == "basic") {
			f("compare", fmt.Sprintf("func(a, b %s) int { return deriveCompare_%s(a, b) }", E, id))
		} else if !t.Ordered {
			f("compare", fmt.Sprintf("func(a, b %s) int { return deriveCompare_%s(a, b) }", E, id))
		}
		if t.Comparable {
			f("keys", fmt.Sprintf("func(m map[%s]int) []%s { return deriveKeys_%s(m) }", E, E, id))
		}
		if !unorderedBasic(t) {
			f("min", fmt.Sprintf("func(l []%s, d %s) %s { return deriveMin_%s(l, d) }", E, E, E, id))
			f("max", fmt.Sprintf("func(l []%s, d %s) %s { return deriveMax_%s(l, d) }", E, E, E, id))
			f("min2", fmt.Sprintf("func(a, b %s) %s { return deriveMin2_%s(a, b) }", E, E, id))
			f("max2", fmt.Sprintf("func(a, b %s) %s { return deriveMax2_%s(a, b) }", E, E, id))
		}
	case "C14":
		f("equal", fmt.Sprintf("func(a, b %s) bool { return deriveEqual_%s(a, b) }", E, id))
		f("contains", fmt.Sprintf("func(l []%s, x %s) bool { return deriveContains_%s(l, x) }", E, E, id))
		f("unique", fmt.Sprintf("func(l []%s) []%s { return deriveUnique_%s(l) }", E, E, id))
		f("union", fmt.Sprintf("func(a, b []%s) []%s { return deriveUnion_%s(a, b) }", E, E, id))
		f("intersect", fmt.Sprintf("func(a, b []%s) []%s { return deriveIntersect_%s(a, b) }", E, E, id))
		if t.Comparable {
			f("set", fmt.Sprintf("func(l []%s) map[%s]struct{} { return deriveSet_%s(l) }", E, E, id))
			f("unionm", fmt.Sprintf("func(a, b map[%s]struct{}) map[%s]struct{} { return deriveUnionM_%s(a, b) }", E, E, id))
			f("intersectm", fmt.Sprintf("func(a, b map[%s]struct{}) map[%s]struct{} { return deriveIntersectM_%s(a, b) }", E, E, id))
		}
		f("filter", fmt.Sprintf("func(p func(%s) bool, l []%s) []%s { return deriveFilter_%s(p, l) }", E, E, E, id))
		f("takewhile", fmt.Sprintf("func(p func(%s) bool, l []%s) []%s { return deriveTakeWhile_%s(p, l) }", E, E, E, id))
		f("all", fmt.Sprintf("func(p func(%s) bool, l []%s) bool { return deriveAll_%s(p, l) }", E, E, id))
		f("any", fmt.Sprintf("func(p func(%s) bool, l []%s) bool { return deriveAny_%s(p, l) }", E, E, id))
	}
	return c
}

var listRules = map[string]string{
	"C13": "state = one input (list of length 0..3 [0..4 thorough] incl. nil over a 4-value element pool with duplicates built at distinct addresses and nil elements; every subset of the pool as a map; every pair for the two-value forms); transition = one call of generated Sort/Keys/Min/Max checked for permutation+sortedness (derived Compare, natural < for basic kinds), keys-exactly-once, extremal-element; non-trivial = inputs with at least two elements",
	"C14": "state = one input (list of length 0..3, for Unique 0..5 [0..4 / 0..6 thorough], incl. nil; every pair of lists for Union/Intersect; every pair of key subsets for the map forms; list x predicate of a 12-member family for Filter/TakeWhile/All/Any); transition = one call of the generated helper compared with the list/set reference model under derived Equal, predicate call log compared; non-trivial = inputs where the answer is not vacuous (item present, duplicates present, both lists non-empty, element-dependent predicate)",
}

func checkList(prop, tier string) {
	rep := newReporter(prop, tier)
	ts, bound := elemTypes(tier)
	var cases []*e1Case
	for i, t := range ts {
		if t.has("user") {
			// element types with deliberately non-structural user Equal/Compare methods are
			// left to C02/C03 (where the statement speaks about them); see DESIGN.md
			continue
		}
		cases = append(cases, listCase(prop, fmt.Sprintf("c%d", i+1), t))
	}
	if prop == "C13" {
		// an element type with its own, well-behaved but not field-wise, Compare method:
		// Sort, Min and Max must follow derived Compare, which delegates to it
		uo := &Ty{Expr: "UOrd", Kind: "struct", Comparable: true, Flags: map[string]bool{"userord": true}}
		ud := &Ty{Expr: "UDiff", Kind: "struct", Comparable: true, Flags: map[string]bool{"userord": true}}
		for i, t := range []*Ty{uo, ptrOf(uo), sliceOf(uo), ud, ptrOf(ud)} {
			cases = append(cases, listCase(prop, fmt.Sprintf("u%d", i+1), t))
		}
	}
	env := []string{"VERIF_ELEMK=3", "VERIF_FUEL=3", "VERIF_LISTLEN=3", "VERIF_ULISTLEN=5"}
	if tier == "thorough" {
		env = []string{"VERIF_ELEMK=3", "VERIF_FUEL=3", "VERIF_LISTLEN=4", "VERIF_ULISTLEN=6"}
	}
	res := runE1(cases, prop, 24, env, 1)
	aggregateE1(rep, prop, cases, res, bound, listRules[prop])
	rep.Finish()
}
