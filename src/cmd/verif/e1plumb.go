package main

import (
	"fmt"
	"strings"
)

func init() {
	checks["C15"] = checkC15
}

type c15sig struct {
	ptypes []string
	pnames []string // nil = unnamed
	rtypes []string
	naming string
	tpat   string
}

func (s c15sig) params(from, to int) string {
	var ps []string
	for i := from; i < to; i++ {
		if s.pnames == nil {
			ps = append(ps, s.ptypes[i])
		} else {
			ps = append(ps, s.pnames[i]+" "+s.ptypes[i])
		}
	}
	return strings.Join(ps, ", ")
}

func (s c15sig) results() string {
	switch len(s.rtypes) {
	case 0:
		return ""
	case 1:
		return " " + s.rtypes[0]
	}
	return " (" + strings.Join(s.rtypes, ", ") + ")"
}

func (s c15sig) funcType() string {
	return "func(" + s.params(0, len(s.ptypes)) + ")" + s.results()
}

func (s c15sig) curriedType() string {
	return "func(" + s.params(0, 1) + ") func(" + s.params(1, len(s.ptypes)) + ")" + s.results()
}

func c15Signatures(tier string) []c15sig {
	distinct := []string{"int", "string", "bool", "float64", "MyInt"}
	firstTwo := []string{"int", "int", "string", "bool", "float64"}
	allInt := []string{"int", "int", "int", "int", "int"}
	resMenu := []string{"string", "int", "bool"}
	letters := []string{"a", "b", "c", "d", "e"}
	var out []c15sig
	for n := 2; n <= 5; n++ {
		for _, tp := range []struct {
			name string
			ts   []string
		}{{"distinct", distinct}, {"all-int", allInt}, {"first-two-equal", firstTwo}} {
			for nres := 0; nres <= 3; nres++ {
				base := c15sig{ptypes: tp.ts[:n], rtypes: resMenu[:nres], tpat: tp.name}
				add := func(naming string, names []string) {
					s := base
					s.naming = naming
					s.pnames = names
					out = append(out, s)
				}
				named := append([]string(nil), letters[:n]...)
				add("named", named)
				add("unnamed", nil)
				blanks := make([]string, n)
				for i := range blanks {
					blanks[i] = "_"
				}
				add("all-blank", blanks)
				for i := 0; i < n; i++ {
					nm := append([]string(nil), named...)
					nm[i] = "_"
					add(fmt.Sprintf("blank@%d", i), nm)
					nf := append([]string(nil), named...)
					nf[i] = "f"
					add(fmt.Sprintf("f@%d", i), nf)
					nv := append([]string(nil), named...)
					nv[i] = "v"
					add(fmt.Sprintf("v@%d", i), nv)
					np := append([]string(nil), named...)
					np[i] = "_"
					np[(i+1)%n] = fmt.Sprintf("param_%d", i)
					add(fmt.Sprintf("blank@%d+param_%d@%d", i, i, (i+1)%n), np)
					if i >= 1 && n >= 3 {
						ni := append([]string(nil), named...)
						ni[i] = "_"
						j := i + 1
						if j >= n {
							j = 1
						}
						// index of the blank inside the inner function of the curried form
						ni[j] = fmt.Sprintf("innerParam_%d", i-1)
						add(fmt.Sprintf("blank@%d+innerParam_%d@%d", i, i-1, j), ni)
					}
				}
			}
		}
	}
	return out
}

func namingClass(n string) string {
	switch {
	case strings.Contains(n, "+param_"):
		return "blank+param_"
	case strings.Contains(n, "+innerParam_"):
		return "blank+innerParam_"
	case strings.HasPrefix(n, "blank@"):
		return "one-blank"
	case strings.HasPrefix(n, "f@"):
		return "param-called-f"
	case strings.HasPrefix(n, "v@"):
		return "param-called-v"
	}
	return n
}

func init() {
	failKey["C15"] = func(f e1Failure) string {
		t := f.Case.Tags
		return fmt.Sprintf("results=%s|naming=%s|%s", t["nres"], namingClass(t["naming"]), t["plugin"])
	}
}

func checkC15(tier string) {
	rep := newReporter("C15", tier)
	sigs := c15Signatures(tier)
	var cases []*e1Case
	n := 0
	mk := func(plugin string, s c15sig, key, src, sigText string) {
		n++
		id := fmt.Sprintf("c%d", n)
		nres := nresClass(len(s.rtypes))
		if plugin == "tuple" {
			nres = "n" // a tuple function yields its arguments (the class results=0 is the recorded 'return f()' finding of the other four plugins)
		}
		cases = append(cases, &e1Case{ID: id, Zero: "(*int)(nil)", Key: key,
			Tags:  map[string]string{"plugin": plugin, "naming": s.naming, "sig": sigText, "tpat": s.tpat, "nres": nres},
			Funcs: map[string]string{"fn": strings.ReplaceAll(src, "ID", id)}})
	}
	seenTuple := map[string]bool{}
	for _, s := range sigs {
		tk := strings.Join(s.ptypes, ",") + "->" + strings.Join(s.rtypes, ",")
		ft := s.funcType()
		mk("curry", s, "curry|"+tk, "func(f "+ft+") interface{} { return deriveCurry_ID(f) }", ft)
		mk("flip", s, "flip|"+tk, "func(f "+ft+") interface{} { return deriveFlip_ID(f) }", ft)
		last := s.ptypes[len(s.ptypes)-1]
		mk("apply", s, "apply|"+tk, "func(f "+ft+", l "+last+") interface{} { return deriveApply_ID(f, l) }", ft)
		ct := s.curriedType()
		mk("uncurry", s, "uncurry|"+tk, "func(f "+ct+") interface{} { return deriveUncurry_ID(f) }", ct)
		mk("uncurrycurry", s, "curry|"+tk+"\x00uncurry|"+tk, "func(f "+ft+") interface{} { return deriveUncurry_ID(deriveCurry_ID(f)) }", "Uncurry(Curry("+ft+"))")
		if s.naming == "named" && len(s.rtypes) == 0 {
			k := strings.Join(s.ptypes, ",")
			if !seenTuple[k] {
				seenTuple[k] = true
				var args []string
				for i := range s.ptypes {
					args = append(args, fmt.Sprintf("a%d", i))
				}
				var ps []string
				for i, t := range s.ptypes {
					ps = append(ps, fmt.Sprintf("a%d %s", i, t))
				}
				mk("tuple", s, "tuple|"+k, "func("+strings.Join(ps, ", ")+") interface{} { return deriveTuple_ID("+strings.Join(args, ", ")+") }", "Tuple("+k+")")
				// the arguments are the results of one call: deriveTuple(g())
				sc := s
				sc.naming = "tuple-of-a-multi-value-call"
				mk("tuple", sc, "tuple|"+k, "func("+strings.Join(ps, ", ")+") interface{} {\n\t\tg := func() ("+strings.Join(s.ptypes, ", ")+") { return "+strings.Join(args, ", ")+" }\n\t\treturn deriveTuple_ID(g())\n\t}", "Tuple(g()) with g returning ("+k+")")
			}
		}
	}
	// a second call of the same helper with a function whose parameter *names* are permuted
	// (same types: one helper serves both calls), earlier or later in the source
	for _, s := range sigs {
		if s.naming != "named" || s.tpat == "distinct" {
			continue
		}
		tk := strings.Join(s.ptypes, ",") + "->" + strings.Join(s.rtypes, ",")
		t := s
		t.pnames = append([]string(nil), s.pnames...)
		t.pnames[0], t.pnames[1] = t.pnames[1], t.pnames[0]
		last := s.ptypes[len(s.ptypes)-1]
		for _, pl := range []struct{ plugin, key, main, other string }{
			{"curry", "curry|" + tk, "func(f " + s.funcType() + ") interface{} { return deriveCurry_ID(f) }", "func other_ID(g " + t.funcType() + ") interface{} { return deriveCurry_ID(g) }"},
			{"flip", "flip|" + tk, "func(f " + s.funcType() + ") interface{} { return deriveFlip_ID(f) }", "func other_ID(g " + t.funcType() + ") interface{} { return deriveFlip_ID(g) }"},
			{"apply", "apply|" + tk, "func(f " + s.funcType() + ", l " + last + ") interface{} { return deriveApply_ID(f, l) }", "func other_ID(g " + t.funcType() + ", l " + last + ") interface{} { return deriveApply_ID(g, l) }"},
			{"uncurry", "uncurry|" + tk, "func(f " + s.curriedType() + ") interface{} { return deriveUncurry_ID(f) }", "func other_ID(g " + t.curriedType() + ") interface{} { return deriveUncurry_ID(g) }"},
		} {
			for _, place := range []string{"earlier", "later"} {
				n++
				id := fmt.Sprintf("c%d", n)
				c := &e1Case{ID: id, Zero: "(*int)(nil)", Key: pl.key,
					Tags:  map[string]string{"plugin": pl.plugin, "naming": "named/second-call-with-permuted-names-" + place, "sig": s.funcType(), "tpat": s.tpat, "nres": nresClass(len(s.rtypes))},
					Funcs: map[string]string{"fn": strings.ReplaceAll(pl.main, "ID", id)}}
				if place == "earlier" {
					c.Extra = strings.ReplaceAll(pl.other, "ID", id)
				} else {
					c.After = strings.ReplaceAll(pl.other, "ID", id)
				}
				cases = append(cases, c)
			}
		}
	}
	// Apply where the last parameter is an interface: earlier in the package the same helper
	// name is also called with a concrete value / with nil (one helper must serve all calls)
	for _, base := range [][]string{{"int"}, {"int", "string"}, {"string", "bool", "int"}} {
		for _, iface := range []string{"interface{}", "error", "Shower"} {
			for _, other := range []string{"concrete-first", "nil-first", "alone"} {
				s := c15sig{ptypes: append(append([]string{}, base...), iface), rtypes: []string{"string"}, naming: "named", tpat: "last-" + iface}
				for i := range s.ptypes {
					s.pnames = append(s.pnames, fmt.Sprintf("p%d", i))
				}
				ft := s.funcType()
				n++
				id := fmt.Sprintf("c%d", n)
				conc := map[string]string{"interface{}": "&Flat{}", "error": "&ShowErr{}", "Shower": "&ShowErr{}"}[iface]
				var extra string
				switch other {
				case "concrete-first":
					extra = "func pre_ID(f " + ft + ") interface{} {\n\tc := " + conc + "\n\treturn deriveApply_ID(f, c)\n}\n"
				case "nil-first":
					extra = "func pre_ID(f " + ft + ") interface{} { return deriveApply_ID(f, nil) }\n"
				}
				cases = append(cases, &e1Case{ID: id, Zero: "(*int)(nil)", Key: "apply|" + strings.Join(s.ptypes, ",") + "->string", Extra: strings.ReplaceAll(extra, "ID", id),
					Tags:  map[string]string{"plugin": "apply", "naming": "named/" + other, "sig": ft, "tpat": s.tpat, "nres": nresClass(1)},
					Funcs: map[string]string{"fn": strings.ReplaceAll("func(f "+ft+", l "+iface+") interface{} { return deriveApply_ID(f, l) }", "ID", id)}})
			}
		}
	}
	markSuspects(rep, "C15", cases)
	res := runE1(cases, "C15", 120, []string{"VERIF_FUEL=2"}, 1)
	aggregateE1(rep, "C15", cases, res,
		fmt.Sprintf("%d non-variadic signatures: arity 2..5 x type pattern {all distinct, all int, first two equal} x naming pattern {named, unnamed, all blank, one blank at each position, a parameter called f / v at each position, blank plus a colliding param_i / innerParam_i name} x 0..3 results; x {Curry, Uncurry, Flip, Apply, Uncurry(Curry), Tuple}; plus Apply over signatures whose last parameter is an interface (interface{}, error, a user interface) with an earlier call of the same helper passing a concrete value / nil", len(sigs)),
		"state = (signature, plugin, argument vector) with all 2^arity vectors of two distinct sentinels per position; transition = one call through the derived wrapper with an instrumented callee: exactly one call, every argument in its proper position, results unchanged; a signature whose generated code does not compile is a violation; non-trivial = vectors checked end to end")
	rep.Finish()
}

func nresClass(n int) string {
	if n == 0 {
		return "0"
	}
	return "n"
}
