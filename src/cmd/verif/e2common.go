package main

import (
	"crypto/sha256"
	"encoding/hex"
	"fmt"
	"go/ast"
	"go/importer"
	"go/parser"
	"go/token"
	"go/types"
	"os"
	"path/filepath"
	"sort"
	"strings"
	"sync"
	"time"
)

// ---- scratch packages for the E2 engine --------------------------------

// pkgFiles maps relative file names to contents.
type pkgFiles map[string]string

const e2GoMod = "module example.com/m\n\ngo 1.24\n"

// writePkg writes files below dir (which is created), adding a go.mod when none is given.
func writePkg(dir string, files pkgFiles) {
	os.RemoveAll(dir)
	if _, ok := files["go.mod"]; !ok {
		writeFile(filepath.Join(dir, "go.mod"), e2GoMod)
	}
	for n, c := range files {
		writeFile(filepath.Join(dir, n), c)
	}
}

// goderive runs the tool built from the working tree inside dir.
func goderive(dir string, args ...string) runResult {
	return run(dir, 120*time.Second, nil, buildGoderive(), args...)
}

// ---- snapshots ------------------------------------------------------------

type snapEntry struct {
	Mode os.FileMode
	Sum  string
}

// snapshot records names, modes and content hashes of everything below dir.
func snapshot(dir string) map[string]snapEntry {
	out := map[string]snapEntry{}
	filepath.Walk(dir, func(p string, info os.FileInfo, err error) error {
		if err != nil {
			return nil
		}
		rel, _ := filepath.Rel(dir, p)
		if rel == "." {
			return nil
		}
		e := snapEntry{Mode: info.Mode()}
		if info.Mode().IsRegular() {
			b, _ := os.ReadFile(p)
			s := sha256.Sum256(b)
			e.Sum = hex.EncodeToString(s[:])
		}
		out[rel] = e
		return nil
	})
	return out
}

// snapDiff lists paths that differ between two snapshots, ignoring `ignore`.
func snapDiff(a, b map[string]snapEntry, ignore func(rel string) bool) []string {
	var out []string
	for k, va := range a {
		if ignore(k) {
			continue
		}
		vb, ok := b[k]
		if !ok {
			out = append(out, "deleted "+k)
		} else if va != vb {
			out = append(out, "modified "+k)
		}
	}
	for k := range b {
		if ignore(k) {
			continue
		}
		if _, ok := a[k]; !ok {
			out = append(out, "created "+k)
		}
	}
	sort.Strings(out)
	return out
}

// ---- in-process type check ---------------------------------------------------

var (
	srcImpMu  sync.Mutex
	srcImp    types.Importer
	srcImpSet = token.NewFileSet()
)

type lockedImporter struct{ local map[string]*types.Package }

func (l lockedImporter) Import(path string) (*types.Package, error) {
	if p, ok := l.local[path]; ok {
		return p, nil
	}
	srcImpMu.Lock()
	defer srcImpMu.Unlock()
	if srcImp == nil {
		srcImp = importer.ForCompiler(srcImpSet, "source", nil)
	}
	return srcImp.Import(path)
}

// checkedPkg is the result of parsing and type-checking one directory.
type checkedPkg struct {
	Fset   *token.FileSet
	Files  map[string]*ast.File
	Info   *types.Info
	Pkg    *types.Package
	Errors []string
}

// typeCheckDir parses and type-checks the non-test Go files of one directory
// (optionally with in-package test files). local supplies already checked
// packages of the scratch module by import path.
func typeCheckDir(dir string, withTests bool, local map[string]*types.Package) *checkedPkg {
	cp := &checkedPkg{Fset: token.NewFileSet(), Files: map[string]*ast.File{}}
	ents, err := os.ReadDir(dir)
	if err != nil {
		cp.Errors = append(cp.Errors, err.Error())
		return cp
	}
	var files []*ast.File
	for _, e := range ents {
		n := e.Name()
		if e.IsDir() || !strings.HasSuffix(n, ".go") {
			continue
		}
		if strings.HasSuffix(n, "_test.go") && !withTests {
			continue
		}
		f, err := parser.ParseFile(cp.Fset, filepath.Join(dir, n), nil, parser.ParseComments)
		if err != nil {
			cp.Errors = append(cp.Errors, err.Error())
			continue
		}
		if strings.HasSuffix(n, "_test.go") && strings.HasSuffix(f.Name.Name, "_test") {
			continue // external test package: another package in the same directory
		}
		cp.Files[n] = f
		files = append(files, f)
	}
	if len(files) == 0 {
		return cp
	}
	cp.Info = &types.Info{Uses: map[*ast.Ident]types.Object{}, Defs: map[*ast.Ident]types.Object{}, Types: map[ast.Expr]types.TypeAndValue{}}
	conf := types.Config{Importer: lockedImporter{local}, Error: func(err error) {
		if len(cp.Errors) < 20 {
			cp.Errors = append(cp.Errors, err.Error())
		}
	}}
	cp.Pkg, _ = conf.Check(files[0].Name.Name, cp.Fset, files, cp.Info)
	return cp
}

// derivedFuncs lists the functions declared in derived.gen.go with their
// parameter type strings.
func (cp *checkedPkg) derivedFuncs() map[string][]string {
	out := map[string][]string{}
	f := cp.Files["derived.gen.go"]
	if f == nil {
		return out
	}
	for _, d := range f.Decls {
		fd, ok := d.(*ast.FuncDecl)
		if !ok || fd.Recv != nil {
			continue
		}
		var ps []string
		for _, fl := range fd.Type.Params.List {
			n := len(fl.Names)
			if n == 0 {
				n = 1
			}
			for i := 0; i < n; i++ {
				ps = append(ps, types.ExprString(fl.Type))
			}
		}
		out[fd.Name.Name] = ps
	}
	return out
}

func shortErrs(es []string) string {
	if len(es) > 3 {
		es = es[:3]
	}
	return strings.Join(es, "; ")
}

var _ = fmt.Sprint
