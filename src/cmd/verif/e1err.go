package main

import (
	"fmt"
	"sort"
	"strings"
)

func init() {
	checks["C16"] = checkC16
	failKey["C16"] = func(f e1Failure) string { return f.Case.Tags["class"] }
}

var c16Menu = []string{"int", "MyInt", "string", "Flat", "[2]int", "*int", "[]int", "map[string]int", "interface{}"}

// zeroClass says what kind of zero value a result type needs.
func zeroClass(t string) string {
	switch t {
	case "int", "string", "bool", "float64":
		return "basic"
	case "MyInt", "MyStr":
		return "named-basic"
	case "Flat", "Heap":
		return "struct"
	case "[2]int":
		return "array"
	}
	return "nilable"
}

func zeroClasses(ts []string) string {
	set := map[string]bool{}
	for _, t := range ts {
		// basic and nil-able results get a correct zero value; the others are where
		// derive.Zero's answer matters
		switch zeroClass(t) {
		case "named-basic":
			set["named-basic"] = true
		case "struct", "array":
			set["struct-or-array"] = true
		}
	}
	var ks []string
	for k := range set {
		ks = append(ks, k)
	}
	sort.Strings(ks)
	if len(ks) == 0 {
		return "none"
	}
	return strings.Join(ks, "+")
}

func funcT(params, results []string) string {
	r := strings.Join(results, ", ")
	if len(results) > 1 {
		r = "(" + r + ")"
	}
	return strings.TrimSpace("func(" + strings.Join(params, ", ") + ") " + r)
}

func checkC16(tier string) {
	rep := newReporter("C16", tier)
	var cases []*e1Case
	n := 0
	rot := 0
	pick := func(w int) []string {
		out := make([]string, w)
		for i := range out {
			out[i] = c16Menu[rot%len(c16Menu)]
			rot++
		}
		return out
	}
	add := func(kind, class, sig, key, src string) {
		n++
		id := fmt.Sprintf("c%d", n)
		cases = append(cases, &e1Case{ID: id, Zero: "(*int)(nil)", Key: key,
			Tags:  map[string]string{"kind": kind, "class": class, "sig": sig},
			Funcs: map[string]string{"fn": strings.ReplaceAll(src, "ID", id)}})
	}
	// Compose chains
	var widthSets [][]int
	var gen func(k int, cur []int)
	gen = func(k int, cur []int) {
		if len(cur) == k+1 {
			widthSets = append(widthSets, append([]int(nil), cur...))
			return
		}
		lo, hi := 0, 3
		if len(cur) == 0 {
			hi = 2
		}
		for w := lo; w <= hi; w++ {
			if tier != "thorough" && k == 4 {
				// quick: 4-stage chains over a reduced width alphabet
				if len(cur) > 0 && len(cur) < k && (w == 0 || w == 3) {
					continue
				}
				if len(cur) == k && w == 2 {
					continue
				}
			}
			gen(k, append(cur, w))
		}
	}
	for k := 2; k <= 4; k++ {
		gen(k, nil)
	}
	for _, ws := range widthSets {
		k := len(ws) - 1
		tuples := make([][]string, k+1)
		for i, w := range ws {
			tuples[i] = pick(w)
		}
		var ps, args, fts []string
		zeroMid := false
		for i := 0; i < k; i++ {
			ft := funcT(tuples[i], append(append([]string(nil), tuples[i+1]...), "error"))
			fts = append(fts, ft)
			ps = append(ps, fmt.Sprintf("f%d %s", i, ft))
			args = append(args, fmt.Sprintf("f%d", i))
			if i > 0 && len(tuples[i]) == 0 {
				zeroMid = true
			}
		}
		class := "compose|zero-needed-for=" + zeroClasses(tuples[k])
		if ws[k] == 0 {
			class = "compose|final-stage-returns-only-error"
		}
		if zeroMid {
			class = "compose|intermediate-stage-passes-no-values"
		}
		add("compose", class, "Compose("+strings.Join(fts, ", ")+")", "compose|"+strings.Join(fts, ";"),
			"func("+strings.Join(ps, ", ")+") interface{} { return deriveCompose_ID("+strings.Join(args, ", ")+") }")
	}
	// Fmap error forms: f's result shapes x element types
	for _, A := range c16Menu {
		for _, outs := range [][]string{{}, {"B"}, {"B", "error"}, {"B", "C"}, {"B", "C", "error"}, {"B", "C", "D"}} {
			var fo []string
			for _, o := range outs {
				if o == "error" {
					fo = append(fo, "error")
				} else {
					fo = append(fo, pick(1)[0])
				}
			}
			ft := funcT([]string{A}, fo)
			gt := funcT(nil, []string{A, "error"})
			var ret string
			switch len(fo) {
			case 0:
				ret = "error"
			case 1:
				ret = "(" + fo[0] + ", error)"
			default:
				ret = "(" + funcT(nil, fo) + ", error)"
			}
			zc := "none"
			if len(fo) == 1 {
				zc = zeroClasses(fo)
			}
			class := fmt.Sprintf("fmap-err|f-results=%d|zero-needed-for=%s", len(fo), zc)
			add("fmap-err", class, "Fmap("+ft+", "+gt+")", "fmap|"+ft+";"+gt,
				"func(f "+ft+", g "+gt+") "+ret+" { return deriveFmap_ID(f, g) }")
		}
	}
	for _, B := range c16Menu {
		ft := funcT([]string{"int"}, []string{B})
		gt := funcT(nil, []string{"int", "error"})
		add("fmap-err", "fmap-err|f-results=1|zero-needed-for="+zeroClasses([]string{B}), "Fmap("+ft+", "+gt+")", "fmap|"+ft+";"+gt,
			"func(f "+ft+", g "+gt+") ("+B+", error) { return deriveFmap_ID(f, g) }")
	}
	// Join error forms
	for w := 0; w <= 3; w++ {
		for rep := 0; rep < 3; rep++ {
			ts := pick(w)
			ft := funcT(nil, append(append([]string(nil), ts...), "error"))
			ret := "(" + strings.Join(append(append([]string(nil), ts...), "error"), ", ") + ")"
			if w == 0 {
				ret = "error"
			}
			class := fmt.Sprintf("join-err|zero-needed-for=%s", zeroClasses(ts))
			add("join-err", class, "Join("+ft+", error)", "join|"+ft,
				"func(f "+ft+", e error) "+ret+" { return deriveJoin_ID(f, e) }")
			if w == 0 {
				break
			}
		}
	}
	// Traverse
	for i, A := range c16Menu {
		B := c16Menu[(i+3)%len(c16Menu)]
		ft := funcT([]string{A}, []string{B, "error"})
		add("traverse", "traverse", "Traverse("+ft+", []"+A+")", "traverse|"+ft,
			"func(f "+ft+", l []"+A+") ([]"+B+", error) { return deriveTraverse_ID(f, l) }")
	}
	// ToError
	for nin := 0; nin <= 3; nin++ {
		for nout := 0; nout <= 5; nout++ {
			for rep := 0; rep < 2; rep++ {
				ins, outs := pick(nin), pick(nout)
				var ps []string
				for j, t := range ins {
					ps = append(ps, fmt.Sprintf("a%d %s", j, t))
				}
				ft := funcT(ps, append(append([]string(nil), outs...), "bool"))
				add("toerror", "toerror", "ToError(error, "+ft+")", "toerror|"+funcT(ins, append(append([]string(nil), outs...), "bool")),
					"func(e error, f "+ft+") interface{} { return deriveToError_ID(e, f) }")
				if rep == 0 {
					// the same signature with named results (and a parameter called err)
					var rs []string
					for j, t := range outs {
						rs = append(rs, fmt.Sprintf("r%d %s", j, t))
					}
					rs = append(rs, "ok bool")
					var ps2 []string
					for j, t := range ins {
						n := fmt.Sprintf("a%d", j)
						ps2 = append(ps2, n+" "+t)
					}
					ft2 := "func(" + strings.Join(ps2, ", ") + ") (" + strings.Join(rs, ", ") + ")"
					add("toerror", "toerror|named-results", "ToError(error, "+ft2+")", "toerror|"+funcT(ins, append(append([]string(nil), outs...), "bool")),
						"func(e error, f "+ft2+") interface{} { return deriveToError_ID(e, f) }")
					// parameters named like the identifiers the generated closure declares itself
					if nin > 0 {
						own := []string{"err", "f", "success", "out0"}
						var ps3 []string
						for j, t := range ins {
							ps3 = append(ps3, own[(j+nout)%len(own)]+" "+t)
						}
						ft3 := funcT(ps3, append(append([]string(nil), outs...), "bool"))
						add("toerror", "toerror|params-named-like-generated-locals", "ToError(error, "+ft3+")", "toerror|"+funcT(ins, append(append([]string(nil), outs...), "bool")),
							"func(e error, f "+ft3+") interface{} { return deriveToError_ID(e, f) }")
					}
				}
			}
		}
	}
	markSuspects(rep, "C16", cases)
	env := []string{"VERIF_FUEL=2", "VERIF_TRAVLEN=4"}
	if tier == "thorough" {
		env = []string{"VERIF_FUEL=2", "VERIF_TRAVLEN=7"}
	}
	res := runE1(cases, "C16", 40, env, 1)
	aggregateE1(rep, "C16", cases, res,
		fmt.Sprintf("%d configurations: Compose chains of 2..4 stages x every width vector (input 0..2, intermediate and final 0..3; 4-stage chains over a reduced width alphabet in the quick tier) with types rotating through {int, MyInt, string, Flat, [2]int, *int, []int, map[string]int, interface{}}; the four Fmap error forms x 9 element types; Join error forms with 0..3 values; Traverse over lists of length 0..4 (and nil) with the failure at every index; ToError with 0..3 arguments and 0..5 extra results; every choice of failing stage x two distinct error values (one of a user-defined type)", len(cases)),
		"state = (configuration, failing stage or none, injected error value); transition = one call of the derived helper with instrumented stages: call log (each stage at most once, left to right, none after the failure), error identity (==), zero values of all other results, success path equal to the sequential composition; a configuration whose generated code does not compile is a violation; non-trivial = every checked (configuration, fault) pair")
	rep.Finish()
}

func widthClass(w int) string {
	if w == 0 {
		return "0"
	}
	return "n"
}
