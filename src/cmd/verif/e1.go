package main

import (
	"bufio"
	"encoding/json"
	"fmt"
	"os"
	"path/filepath"
	"regexp"
	"sort"
	"strings"
	"sync"
	"time"
)

// e1Case is one scenario case: a type plus the derive calls (roles) on it.
type e1Case struct {
	ID    string
	Ty    *Ty
	Roles []string
	Extra string // extra source (declarations) for this case
	After string // the same, placed behind the table of cases (later in source order)
	// for non-type-driven cases (C13..C18) the registration is given verbatim
	Funcs    map[string]string // role -> Go func literal source
	Zero     string            // Go expression of (*T)(nil)
	Tags     map[string]string
	Group    string // cases sharing a non-empty group+AssignKey must not share a package
	TestSrc  string // source placed in an in-package _test.go file
	Isolated bool   // must be alone in its scenario package
	Suspect  bool   // expected to fail generation/compilation (listed finding): isolated in a package of its own
	Key      string // for cases without Ty: cases with equal keys must not share a package
}

// roleSrc returns the function literal for a role on type T.
func roleSrc(role, id, T string) string {
	switch role {
	case "equal":
		return fmt.Sprintf("func(a, b %s) bool { return deriveEqual_%s(a, b) }", T, id)
	case "equalc":
		return fmt.Sprintf("func(a %s) func(%s) bool { return deriveEqualc_%s(a) }", T, T, id)
	case "compare":
		return fmt.Sprintf("func(a, b %s) int { return deriveCompare_%s(a, b) }", T, id)
	case "comparec":
		return fmt.Sprintf("func(a %s) func(%s) int { return deriveComparec_%s(a) }", T, T, id)
	case "hash":
		return fmt.Sprintf("func(a %s) uint64 { return deriveHash_%s(a) }", T, id)
	case "deepcopy":
		return fmt.Sprintf("func(dst, src %s) { deriveDeepCopy_%s(dst, src) }", T, id)
	case "clone":
		return fmt.Sprintf("func(a %s) %s { return deriveClone_%s(a) }", T, T, id)
	case "gostring":
		return fmt.Sprintf("func(a %s) string { return deriveGoString_%s(a) }", T, id)
	}
	panic("unknown role " + role)
}

// pluginOfRole names the plugin that a role exercises.
func pluginOfRole(role string) string {
	switch role {
	case "equalc":
		return "equal"
	case "comparec":
		return "compare"
	}
	return role
}

type e1Batch struct {
	Name  string
	Cases []*e1Case
	Dir   string
}

// batchCases partitions cases into batches of at most size, never putting two
// mutually assignable root types into one package (goderive would treat the
// two differently named calls as duplicates).
func batchCases(cases []*e1Case, size int) []*e1Batch {
	var batches []*e1Batch
	keysOf := []map[string]bool{}
	window := 40
	for _, c := range cases {
		if c.Suspect || c.Isolated {
			batches = append(batches, &e1Batch{Name: fmt.Sprintf("b%04d", len(batches)), Cases: []*e1Case{c}})
			keysOf = append(keysOf, map[string]bool{"\x00full": true})
			continue
		}
		var ks []string
		if c.Key != "" {
			ks = strings.Split(c.Key, "\x00")
		}
		if c.Ty != nil {
			ks = append(ks, c.Group+"|"+c.Ty.AssignKey())
		}
		placed := false
		for bi := len(batches) - 1; bi >= 0 && bi >= len(batches)-window; bi-- {
			b := batches[bi]
			if len(b.Cases) >= size || keysOf[bi]["\x00full"] {
				continue
			}
			clash := false
			for _, k := range ks {
				if keysOf[bi][k] {
					clash = true
				}
			}
			if clash {
				continue
			}
			b.Cases = append(b.Cases, c)
			for _, k := range ks {
				keysOf[bi][k] = true
			}
			placed = true
			break
		}
		if !placed {
			b := &e1Batch{Name: fmt.Sprintf("b%04d", len(batches)), Cases: []*e1Case{c}}
			batches = append(batches, b)
			m := map[string]bool{}
			for _, k := range ks {
				m[k] = true
			}
			keysOf = append(keysOf, m)
		}
	}
	return batches
}

// scenarioFiles renders the scratch module of a batch.
func scenarioFiles(cases []*e1Case, harnessExtra string) map[string]string {
	files := map[string]string{}
	files["go.mod"] = "module example.com/v\n\ngo 1.24\n\nrequire verifrt v0.0.0\n\nreplace verifrt => " + filepath.Join(verifDir, "rt") + "\n"
	files["ext/ext.go"] = extSrc
	files["ext2/ext/ext.go"] = ext2Src
	files["geo/v2/geo.go"] = geoSrc
	files["same/p/p.go"] = sameSrc
	// an external test package shares the directory (and derived.gen.go's path) with package p
	files["p/ext_test.go"] = "package p_test\n\nvar Sink = 1\n"
	decls := map[string]string{}
	var sb strings.Builder
	for _, c := range cases {
		if c.Ty != nil {
			c.Ty.decls(decls)
		}
	}
	sb.WriteString(fixedDecls)
	names := make([]string, 0, len(decls))
	for n := range decls {
		names = append(names, n)
	}
	sort.Strings(names)
	for _, n := range names {
		sb.WriteString(decls[n] + "\n")
	}
	files["p/types.go"] = "package p\n\n" + importsFor(sb.String()) + sb.String()

	var cb strings.Builder
	cb.WriteString("type Case struct {\n\tID, Type string\n\tZero interface{}\n\tFuncs map[string]interface{}\n\tTags map[string]string\n}\n\n")
	for _, c := range cases {
		if c.Extra != "" {
			cb.WriteString(c.Extra + "\n")
		}
	}
	cb.WriteString("var Cases = []Case{\n")
	for _, c := range cases {
		T := ""
		if c.Ty != nil {
			T = c.Ty.Expr
		}
		zero := c.Zero
		if zero == "" {
			zero = "(*" + T + ")(nil)"
			if strings.HasPrefix(T, "*") || strings.HasPrefix(T, "[") || strings.HasPrefix(T, "map[") {
				zero = "(*(" + T + "))(nil)"
			}
		}
		fmt.Fprintf(&cb, "\t{ID: %q, Type: %q, Zero: %s, Funcs: map[string]interface{}{\n", c.ID, T, zero)
		for _, r := range c.Roles {
			fmt.Fprintf(&cb, "\t\t%q: %s,\n", r, roleSrc(r, c.ID, T))
		}
		roles := make([]string, 0, len(c.Funcs))
		for r := range c.Funcs {
			roles = append(roles, r)
		}
		sort.Strings(roles)
		for _, r := range roles {
			fmt.Fprintf(&cb, "\t\t%q: %s,\n", r, c.Funcs[r])
		}
		cb.WriteString("\t}, Tags: map[string]string{")
		tags := make([]string, 0, len(c.Tags))
		for k := range c.Tags {
			tags = append(tags, k)
		}
		sort.Strings(tags)
		for _, k := range tags {
			fmt.Fprintf(&cb, "%q: %q, ", k, c.Tags[k])
		}
		cb.WriteString("}},\n")
	}
	cb.WriteString("}\n")
	for _, c := range cases {
		if c.After != "" {
			cb.WriteString("\n" + c.After + "\n")
		}
	}
	files["p/cases.go"] = "package p\n\n" + importsFor(cb.String()) + cb.String()

	var tb strings.Builder
	for _, c := range cases {
		if c.TestSrc != "" {
			tb.WriteString(c.TestSrc + "\n")
		}
	}
	if tb.Len() > 0 {
		files["p/cases_test.go"] = "package p\n\n" + importsFor(tb.String()) + tb.String()
	}
	files["main.go"] = `package main

import (
	"example.com/v/p"
	"verifrt"
)

func main() {
	cs := make([]rt.Case, len(p.Cases))
	for i, c := range p.Cases {
		cs[i] = rt.Case{ID: c.ID, Type: c.Type, Zero: c.Zero, Funcs: c.Funcs, Tags: c.Tags}
	}
	rt.Main(cs)
}
` + harnessExtra
	return files
}

// importsFor renders the import block a scenario file body needs.
func importsFor(body string) string {
	var sb strings.Builder
	e1, e2, e3 := strings.Contains(body, "ext."), strings.Contains(body, "ext2."), strings.Contains(body, "geo.")
	e4 := strings.Contains(body, "p.Item")
	if !e1 && !e2 && !e3 && !e4 {
		return ""
	}
	sb.WriteString("import (\n")
	if e1 {
		sb.WriteString("\text \"example.com/v/ext\"\n")
	}
	if e2 {
		sb.WriteString("\text2 \"example.com/v/ext2/ext\"\n")
	}
	if e3 {
		sb.WriteString("\t\"example.com/v/geo/v2\"\n")
	}
	if e4 {
		sb.WriteString("\t\"example.com/v/same/p\"\n")
	}
	sb.WriteString(")\n\n")
	return sb.String()
}

func allDecls(t *Ty) []string {
	m := map[string]string{}
	t.decls(m)
	var out []string
	for _, d := range m {
		out = append(out, d)
	}
	return out
}

func writeScenario(dir string, files map[string]string) {
	os.RemoveAll(dir)
	for n, c := range files {
		writeFile(filepath.Join(dir, n), c)
	}
}

// e1Failure describes a case that could not be generated / compiled.
type e1Failure struct {
	Case   *e1Case
	Phase  string // generate | compile
	Output string
	Files  map[string]string
	// Together lists the cases of the smallest group found that fails only in
	// combination (every case of it passes when generated in two halves).
	Together []string
}

// probeGroup generates and type-checks one group of cases.
func probeGroup(res *e1Result, cases []*e1Case, name string) (failed bool, phase, out string) {
	dir := filepath.Join(scratchDir, "e1", name)
	files := scenarioFiles(cases, "")
	writeScenario(dir, files)
	defer os.RemoveAll(dir)
	g := run(dir, 90*time.Second, nil, buildGoderive(), "./p")
	res.GenRuns++
	if g.TimedOut || g.Exit != 0 {
		return true, "generate", fmt.Sprintf("goderive exit %d\n%s", g.Exit, g.Stderr)
	}
	pc := run(dir, 10*time.Minute, nil, "go", "build", "-gcflags=-e", "./p")
	res.Builds++
	if pc.Exit == 0 && files["p/cases_test.go"] != "" {
		pc = run(dir, 10*time.Minute, nil, "go", "test", "-c", "-o", os.DevNull, "-gcflags=-e", "./p")
		pc.Stderr += pc.Stdout
		res.Builds++
	}
	if pc.Exit != 0 {
		return true, "compile", pc.Stderr
	}
	return false, "", ""
}

// shrinkInteraction reduces a failing group whose halves pass to a small group
// that still fails (greedy chunk removal, at most 40 probes).
func shrinkInteraction(res *e1Result, cases []*e1Case, name, phase, out string) ([]*e1Case, string, string) {
	cur := append([]*e1Case{}, cases...)
	budget := 40
	for chunk := (len(cur) + 1) / 2; chunk >= 1 && budget > 0; {
		progress := false
		for i := 0; i < len(cur) && len(cur) > 1 && budget > 0; {
			j := i + chunk
			if j > len(cur) {
				j = len(cur)
			}
			cand := append(append([]*e1Case{}, cur[:i]...), cur[j:]...)
			if len(cand) == 0 {
				break
			}
			budget--
			if f, ph, o := probeGroup(res, cand, fmt.Sprintf("%ss%d", name, budget)); f {
				cur, phase, out, progress = cand, ph, o, true
			} else {
				i = j
			}
		}
		if chunk == 1 && !progress {
			break
		}
		if chunk > 1 {
			chunk = (chunk + 1) / 2
		}
	}
	return cur, phase + "-together", out
}

// histProps are checked a second time on the code goderive leaves behind when
// it regenerates over the output for an older version of the sources (the
// harness only runs again when those bytes differ from the from-scratch ones).
var histProps = map[string]bool{"C02": true, "C03": true, "C04": true, "C05": true, "C06": true}

var structOpenRe = regexp.MustCompile(`^type [A-Za-z0-9_]+ struct \{$`)

// olderVersion cuts every multi-line struct declaration down to its first field.
func olderVersion(src string) string {
	var out []string
	in, kept := false, false
	for _, l := range strings.Split(src, "\n") {
		switch {
		case !in && structOpenRe.MatchString(l):
			in, kept = true, false
			out = append(out, l)
		case in && l == "}":
			in = false
			out = append(out, l)
		case in:
			if t := strings.TrimSpace(l); !kept && t != "" && !strings.HasPrefix(t, "//") {
				kept = true
				out = append(out, l)
			}
		default:
			out = append(out, l)
		}
	}
	return strings.Join(out, "\n")
}

var basicFieldRe = regexp.MustCompile(`^\t[A-Za-z_][A-Za-z0-9_, ]* (bool|string|int|int8|int16|int32|int64|uint|uint8|uint16|uint32|uint64|float32|float64|complex64|complex128|byte|rune)$`)

// olderVersionSameHelpers drops the fields of basic type from every multi-line struct
// (the first field stays): the output for this version declares the same functions with
// the same signatures as the current one - only bodies differ.
func olderVersionSameHelpers(src string) string {
	var out []string
	in, first := false, false
	for _, l := range strings.Split(src, "\n") {
		switch {
		case !in && structOpenRe.MatchString(l):
			in, first = true, true
			out = append(out, l)
		case in && l == "}":
			in = false
			out = append(out, l)
		case in:
			t := strings.TrimSpace(l)
			if t == "" || strings.HasPrefix(t, "//") {
				out = append(out, l)
			} else if first {
				first = false
				out = append(out, l)
			} else if !basicFieldRe.MatchString(l) {
				out = append(out, l)
			}
		default:
			out = append(out, l)
		}
	}
	return strings.Join(out, "\n")
}

type e1Result struct {
	HistSame, HistDiffer int
	Records              []map[string]interface{} // decoded harness records
	Failures             []e1Failure
	GenRuns              int
	Builds               int
	HarnessErr           []string
}

// runBatchPipeline generates, compiles (bisecting on failure) and runs the harness.
// harnessArgs are the arguments of each harness execution (property id first).
// stage2Hook, when set, runs after the harness of a compiled group inside its
// scratch module and may add records.
type stage2Hook func(dir string, cases []*e1Case, env []string, recs []map[string]interface{}) []map[string]interface{}

func runBatchPipeline(b *e1Batch, prop string, env []string, runs int, hooks ...stage2Hook) *e1Result {
	res := &e1Result{}
	hist := false
	histMode := 1
	var scratchBytes string
	var rec func(cases []*e1Case, name string)
	rec = func(cases []*e1Case, name string) {
		dir := filepath.Join(scratchDir, "e1", name)
		files := scenarioFiles(cases, "")
		if hist {
			// without the external test package: goderive handles it as a package of its own that
			// has no derive calls and deletes the old derived.gen.go before package p is printed,
			// which would hide what the old file on disk does to the new one
			delete(files, "p/ext_test.go")
			// regeneration: derived.gen.go first holds the output for an older version of
			// the sources (every multi-line struct cut down to its first field)
			old := map[string]string{}
			for k, v := range files {
				old[k] = v
			}
			if histMode == 2 {
				old["p/types.go"] = olderVersionSameHelpers(files["p/types.go"])
			} else {
				old["p/types.go"] = olderVersion(files["p/types.go"])
			}
			writeScenario(dir, old)
			og := run(dir, 90*time.Second, nil, buildGoderive(), "./p")
			if os.Getenv("VERIF_DEBUG") != "" {
				fmt.Fprintf(os.Stderr, "DEBUG older version (mode %d) of %s: goderive exit %d, %d bytes: %s\n", histMode, name, og.Exit, len(readFileOr(filepath.Join(dir, "p/derived.gen.go"), "")), head(firstErrorLine(og.Stderr), 200))
			}
			res.GenRuns++
			writeFile(filepath.Join(dir, "p/types.go"), files["p/types.go"])
		} else {
			writeScenario(dir, files)
		}
		defer os.RemoveAll(dir)
		fail := func(phase, out string) {
			if len(cases) == 1 {
				files["p/derived.gen.go"] = readFileOr(filepath.Join(dir, "p/derived.gen.go"), "")
				res.Failures = append(res.Failures, e1Failure{Case: cases[0], Phase: phase, Output: out, Files: files})
				return
			}
			h := len(cases) / 2
			before := len(res.Failures)
			rec(cases[:h], name+"a")
			rec(cases[h:], name+"b")
			if len(res.Failures) == before {
				// both halves are fine on their own: the failure needs several cases
				// together; shrink to a small failing group and report that
				group, gphase, gout := shrinkInteraction(res, cases, name, phase, out)
				gfiles := scenarioFiles(group, "")
				var ids []string
				for _, c := range group {
					ids = append(ids, caseLabel(c))
				}
				res.Failures = append(res.Failures, e1Failure{Case: group[0], Phase: gphase, Output: gout, Files: gfiles, Together: ids})
			}
		}
		g := run(dir, 90*time.Second, nil, buildGoderive(), "./p")
		res.GenRuns++
		if g.TimedOut {
			fail("generate", "goderive timed out\n"+g.Stderr)
			return
		}
		if g.Exit != 0 {
			if os.Getenv("VERIF_DEBUG") != "" {
				fmt.Fprintf(os.Stderr, "DEBUG generate failure in %s (%d cases): %s\n", name, len(cases), head(firstErrorLine(g.Stderr), 300))
			}
			fail("generate", fmt.Sprintf("goderive exit %d\n%s", g.Exit, g.Stderr))
			return
		}
		if name == b.Name {
			cur := readFileOr(filepath.Join(dir, "p/derived.gen.go"), "")
			if os.Getenv("VERIF_DEBUG") != "" && hist {
				fmt.Fprintf(os.Stderr, "DEBUG regenerated %s mode %d: %d bytes, scratch %d bytes, same=%v\n", name, histMode, len(cur), len(scratchBytes), cur == scratchBytes)
			}
			if !hist {
				scratchBytes = cur
			} else if cur == scratchBytes {
				// the same bytes were already compiled and explored
				res.HistSame++
				return
			} else {
				res.HistDiffer++
			}
		}
		// type-check the scenario package alone first (no link): cheap bisection steps
		pc := run(dir, 10*time.Minute, nil, "go", "build", "-gcflags=-e", "./p")
		res.Builds++
		if pc.Exit == 0 && files["p/cases_test.go"] != "" {
			// in-package test files are only type-checked when the test binary is built
			pc = run(dir, 10*time.Minute, nil, "go", "test", "-c", "-o", os.DevNull, "-gcflags=-e", "./p")
			pc.Stderr += pc.Stdout
			res.Builds++
		}
		if pc.Exit != 0 {
			if len(cases) > 1 {
				// errors lying inside the function generated for one case's own call are
				// attributed to that case; each is confirmed in a package of its own
				if bad := attributeErrors(dir, pc.Stderr, cases); len(bad) > 0 && len(bad) < len(cases) {
					var rest []*e1Case
					for _, c := range cases {
						if bad[c.ID] {
							rec([]*e1Case{c}, name+"x"+c.ID)
						} else {
							rest = append(rest, c)
						}
					}
					rec(rest, name+"r")
					return
				}
			}
			fail("compile", pc.Stderr)
			return
		}
		if prop == "C01" {
			// C01 is decided by generation + type-check alone
			for _, cs := range cases {
				res.Records = append(res.Records, map[string]interface{}{"k": "stat", "case": cs.ID, "type": caseLabel(cs), "states": float64(1), "evals": float64(1), "nontriv": float64(1), "run": float64(0)})
			}
			return
		}
		c := run(dir, 10*time.Minute, nil, "go", "build", "-gcflags=-e", "-o", "h.bin", ".")
		if c.Exit != 0 {
			if strings.Contains(c.Stderr, "verifrt") && !strings.Contains(c.Stderr, "example.com/v/p") && !strings.Contains(c.Stderr, "p/") {
				fatalInfra("harness runtime does not build:\n%s", c.Stderr)
			}
			fail("compile", c.Stderr)
			return
		}
		first := len(res.Records)
		defer func() {
			for _, hk := range hooks {
				res.Records = append(res.Records, hk(dir, cases, env, res.Records[first:])...)
			}
		}()
		for k := 0; k < runs; k++ {
			h := run(dir, 20*time.Minute, env, filepath.Join(dir, "h.bin"), prop)
			if h.Exit != 0 {
				res.HarnessErr = append(res.HarnessErr, fmt.Sprintf("%s: exit %d: %s", name, h.Exit, tail(h.Stderr, 2000)))
				continue
			}
			sc := bufio.NewScanner(strings.NewReader(h.Stdout))
			sc.Buffer(make([]byte, 1<<20), 1<<26)
			for sc.Scan() {
				var m map[string]interface{}
				if err := json.Unmarshal(sc.Bytes(), &m); err != nil {
					res.HarnessErr = append(res.HarnessErr, "bad harness output: "+sc.Text())
					continue
				}
				m["run"] = float64(k)
				if m["k"] == "viol" {
					// attach what is needed to replay
					for _, cs := range cases {
						if cs.ID == m["case"] {
							m["_files"] = scenarioFiles([]*e1Case{cs}, "")
						}
					}
				}
				res.Records = append(res.Records, m)
			}
		}
	}
	rec(b.Cases, b.Name)
	if histProps[prop] && len(res.Failures) == 0 && len(b.Cases) > 0 {
		hist = true
		rec(b.Cases, b.Name)
		// a second older version: the same functions with the same signatures, other bodies
		if len(res.Failures) == 0 {
			histMode = 2
			rec(b.Cases, b.Name)
		}
	}
	return res
}

func tail(s string, n int) string {
	if len(s) > n {
		return s[len(s)-n:]
	}
	return s
}

func head(s string, n int) string {
	if len(s) > n {
		return s[:n] + "…"
	}
	return s
}

// runE1 runs all batches in parallel and merges results.
func runE1(cases []*e1Case, prop string, batchSize int, env []string, runs int, hooks ...stage2Hook) *e1Result {
	batches := batchCases(cases, batchSize)
	total := &e1Result{}
	var mu sync.Mutex
	done := 0
	parDo(len(batches), func(i int) {
		r := runBatchPipeline(batches[i], prop, env, runs, hooks...)
		mu.Lock()
		total.Records = append(total.Records, r.Records...)
		total.Failures = append(total.Failures, r.Failures...)
		total.GenRuns += r.GenRuns
		total.HistSame += r.HistSame
		total.HistDiffer += r.HistDiffer
		total.Builds += r.Builds
		total.HarnessErr = append(total.HarnessErr, r.HarnessErr...)
		done++
		if done%10 == 0 || done == len(batches) {
			fmt.Fprintf(os.Stderr, "  [%s] batches %d/%d\n", prop, done, len(batches))
		}
		mu.Unlock()
	})
	return total
}

// firstErrorLine extracts a short, stable root-cause string from tool output.
func firstErrorLine(out string) string {
	for _, l := range strings.Split(out, "\n") {
		l = strings.TrimSpace(l)
		if l == "" || strings.HasPrefix(l, "#") || strings.HasPrefix(l, "could not yet generate") || strings.HasPrefix(l, "changing function") {
			continue
		}
		return l
	}
	return ""
}

var gcErrRe = regexp.MustCompile(`(?m)^(?:\./)?p/derived\.gen\.go:(\d+):\d+: `)
var genFuncRe = regexp.MustCompile(`^func (derive[A-Za-z0-9]*_(c\d+))\(`)

// attributeErrors maps compiler errors in derived.gen.go to the cases whose own
// (uniquely named) generated function they lie in.
func attributeErrors(dir, stderr string, cases []*e1Case) map[string]bool {
	src := readFileOr(filepath.Join(dir, "p/derived.gen.go"), "")
	if src == "" {
		return nil
	}
	lines := strings.Split(src, "\n")
	owner := make([]string, len(lines)+2)
	cur := ""
	for i, l := range lines {
		if strings.HasPrefix(l, "func ") {
			cur = ""
			if m := genFuncRe.FindStringSubmatch(l); m != nil {
				cur = m[2]
			}
		}
		owner[i+1] = cur
	}
	ids := map[string]bool{}
	for _, c := range cases {
		ids[c.ID] = true
	}
	bad := map[string]bool{}
	for _, m := range gcErrRe.FindAllStringSubmatch(stderr, -1) {
		var ln int
		fmt.Sscanf(m[1], "%d", &ln)
		if ln > 0 && ln < len(owner) && owner[ln] != "" && ids[owner[ln]] {
			bad[owner[ln]] = true
		}
	}
	return bad
}
