package main

import (
	"bytes"
	"fmt"
	"go/ast"
	"go/format"
	"go/parser"
	"go/token"
	"go/types"
	"os"
	"path/filepath"
	"regexp"
	"sort"
	"strings"
	"sync"
)

func init() {
	checks["C10"] = checkC10
}

type c10scn struct {
	mech      string // dedup | autoname
	lenRel    string // shorter | equal | longer (new name relative to the old one)
	unfmt     bool   // files are not gofmt-formatted
	comments  string // none | before (line above) | before-name (block comments around the name) | inside | after | doc
	layout    string // single | split-late | split-early | split-twice (the same renamed call in two later files)
	nRenames  int
	bothFlags bool
	second    bool // the renamed call's argument is itself a derive call: it can only be registered (and renamed) in a second pass, after a reload
	late      bool // the source files sort after derived.gen.go (main.go, types.go, z.go instead of a.go, b.go, c.go)
	pregen    bool // derived.gen.go already exists: goderive ran before the calls to rename were added
}

func (s c10scn) label() string {
	return fmt.Sprintf("mechanism=%s new-name=%s formatted=%v comments=%s layout=%s renamed-calls=%d both-flags=%v renamed-in-second-pass=%v files-sort-after-derived.gen.go=%v derived.gen.go-exists-before=%v", s.mech, s.lenRel, !s.unfmt, s.comments, s.layout, s.nRenames, s.bothFlags, s.second, s.late, s.pregen)
}

func (s c10scn) class() string {
	return fmt.Sprintf("%s|%s|formatted=%v|comments=%s|%s|n=%d|second-pass=%v|late-files=%v|pregen=%v", s.mech, s.lenRel, !s.unfmt, s.comments, s.layout, s.nRenames, s.second, s.late, s.pregen)
}

func (s c10scn) flags() []string {
	if s.bothFlags {
		return []string{"-autoname", "-dedup"}
	}
	return []string{"-" + s.mech}
}

// callStmt renders one statement calling name on type Tn with the comment style.
func (s c10scn) fn(fname, name string, tn int) string {
	return s.fn2(fname, name, tn, false)
}

func (s c10scn) fn2(fname, name string, tn int, nested bool) string {
	arg := fmt.Sprintf("&T%d{}", tn)
	arg0 := arg
	if nested {
		arg0 = fmt.Sprintf("deriveCloneT%d(&T%d{})", tn, tn)
	}
	var b strings.Builder
	if s.comments == "doc" {
		fmt.Fprintf(&b, "// %s is documented.\n// It has two lines of documentation.\n", fname)
	}
	if s.unfmt {
		fmt.Fprintf(&b, "func %s( ){\n", fname)
		if s.comments == "before" {
			b.WriteString("      // a comment before the call\n")
		}
		switch s.comments {
		case "before-name":
			fmt.Fprintf(&b, "    _ =   /* c1 */ %s /* c2 */ (%s,%s)\n", name, arg0, arg)
		case "inside":
			fmt.Fprintf(&b, "    _ =   %s( /* first */ %s,%s )\n", name, arg0, arg)
		case "after":
			fmt.Fprintf(&b, "    _ =   %s(%s,%s)      // trailing comment\n", name, arg0, arg)
		default:
			fmt.Fprintf(&b, "    _ =   %s(%s,%s)\n", name, arg0, arg)
		}
		b.WriteString("\n\n\n}\n\n\n")
	} else {
		fmt.Fprintf(&b, "func %s() {\n", fname)
		if s.comments == "before" {
			b.WriteString("\t// a comment before the call\n")
		}
		switch s.comments {
		case "before-name":
			fmt.Fprintf(&b, "\t_ = /* c1 */ %s /* c2 */ (%s, %s)\n", name, arg0, arg)
		case "inside":
			fmt.Fprintf(&b, "\t_ = %s( /* first */ %s, %s)\n", name, arg0, arg)
		case "after":
			fmt.Fprintf(&b, "\t_ = %s(%s, %s) // trailing comment\n", name, arg0, arg)
		default:
			fmt.Fprintf(&b, "\t_ = %s(%s, %s)\n", name, arg0, arg)
		}
		b.WriteString("}\n\n")
	}
	return b.String()
}

func (s c10scn) filler(fname string) string {
	if s.unfmt {
		return fmt.Sprintf("// %s does nothing interesting.\nfunc %s( x int,y int )int{\n  // keep my spacing\n        return x+y   // sum\n}\n\n\n\nvar   filler%s=[]int{1,2,\n3}\n// trailing comment at the end of the file\n", fname, fname, fname)
	}
	return fmt.Sprintf("// %s does nothing interesting.\nfunc %s(x int, y int) int {\n\t// nothing to reformat here\n\treturn x + y // sum\n}\n\nvar filler%s = []int{1, 2,\n\t3}\n\n// trailing comment at the end of the file\n", fname, fname, fname)
}

func (s c10scn) files() pkgFiles { return s.filesN(false) }

// filesN renders the package; with onlyKept the calls that will be renamed are
// not there yet (the state of the package before the user added them).
func (s c10scn) filesN(onlyKept bool) pkgFiles {
	types := "type T1 struct{ A int }\n\ntype T2 struct{ B int }\n\ntype T3 struct{ C int }\n\n"
	hdr := "// Package m is a scenario package.\npackage m\n\n"
	// names and argument types of the calls: call 0 is kept, calls 1..n are renamed
	type call struct {
		name string
		tn   int
	}
	var calls []call
	if s.mech == "dedup" {
		first, second, third := "", "", ""
		switch s.lenRel {
		case "shorter":
			first, second, third = "deriveEqual", "deriveEqualLonger", "deriveEqualLongerStill"
		case "equal":
			first, second, third = "deriveEqualAB", "deriveEqualXY", "deriveEqualZW"
		case "longer":
			first, second, third = "deriveEqualVeryLongName", "deriveEqualX", "deriveEqualY"
		}
		calls = []call{{first, 1}, {second, 1}}
		if s.nRenames == 2 {
			calls = append(calls, call{third, 1})
		}
	} else {
		n := ""
		switch s.lenRel {
		case "shorter":
			n = "deriveEqualLongName"
		case "equal":
			n = "deriveEqualX" // the bare prefix is a called user function, so the fresh names are deriveEqual_ / deriveEqual_1
			types += "func deriveEqual(x int) int { return x }\n\nvar _ = deriveEqual(1)\n\n"
		case "longer":
			n = "deriveEqual"
		}
		calls = []call{{n, 1}, {n, 2}}
		if s.nRenames == 2 {
			calls = append(calls, call{n, 3})
		}
	}
	if s.layout == "split-twice" && len(calls) == 3 {
		// the same call (hence the same renaming) in two different files
		calls[2] = calls[1]
	}
	if onlyKept {
		calls = calls[:1]
	}
	fs := pkgFiles{}
	defer func() {
		if s.unfmt {
			// what gofmt normalises besides spacing: the order of an import block and the
			// spelling of number literals
			// (two tiny packages of the scenario module: importing the standard library
			// would make every run type-check it from source)
			for n, src := range fs {
				src = strings.Replace(src, "package m\n", "package m\n\nimport (\n\"example.com/m/zz\"\n\"example.com/m/aa\"\n)\n", 1)
				fs[n] = src + "\nvar   _ = []float64{ zz.Z,aa.A,0XFF,1E3 }\n"
			}
			fs["zz/zz.go"] = "package zz\n\nconst Z = 1\n"
			fs["aa/aa.go"] = "package aa\n\nconst A = 2\n"
		}
		if s.late {
			for old, nw := range map[string]string{"a.go": "main.go", "b.go": "types.go", "c.go": "z.go"} {
				if src, ok := fs[old]; ok {
					fs[nw] = src
					delete(fs, old)
				}
			}
		}
	}()
	switch s.layout {
	case "single":
		src := hdr + types
		for i, c := range calls {
			src += s.fn2(fmt.Sprintf("use%d", i), c.name, c.tn, s.second && i >= 1)
		}
		src += s.filler("tail")
		fs["a.go"] = src
	case "split-late":
		fs["a.go"] = hdr + types + s.fn("use0", calls[0].name, calls[0].tn)
		src := "package m\n\n"
		for i, c := range calls[1:] {
			src += s.fn2(fmt.Sprintf("use%d", i+1), c.name, c.tn, s.second)
		}
		fs["b.go"] = src + s.filler("tailb")
		fs["c.go"] = "package m\n\n" + s.filler("onlyc")
	case "split-twice":
		fs["a.go"] = hdr + types + s.fn("use0", calls[0].name, calls[0].tn)
		fs["b.go"] = "package m\n\n" + s.filler("tailb")
		if len(calls) > 1 {
			fs["b.go"] = "package m\n\n" + s.fn2("use1", calls[1].name, calls[1].tn, s.second) + s.filler("tailb")
		}
		if len(calls) > 2 {
			fs["c.go"] = "package m\n\n" + s.fn2("use2", calls[2].name, calls[2].tn, s.second) + s.filler("tailc")
		}
	case "split-early":
		src := hdr + types
		for i, c := range calls {
			src += s.fn2(fmt.Sprintf("use%d", i), c.name, c.tn, s.second && i >= 1)
		}
		fs["a.go"] = src
		fs["b.go"] = "package m\n\n" + s.filler("onlyb")
		fs["c.go"] = "package m\n\n" + s.fn("other", "deriveCompare", 1) + s.filler("tailc")
	}
	return fs
}

var (
	c10LocalOnce sync.Once
	c10Local     map[string]*types.Package
)

// c10LocalPkgs are the two tiny packages the unformatted scenario files import.
func c10LocalPkgs() map[string]*types.Package {
	c10LocalOnce.Do(func() {
		c10Local = map[string]*types.Package{}
		for path, src := range map[string]string{"example.com/m/zz": "package zz\n\nconst Z = 1\n", "example.com/m/aa": "package aa\n\nconst A = 2\n"} {
			fset := token.NewFileSet()
			f, err := parser.ParseFile(fset, "x.go", src, 0)
			if err != nil {
				fatalInfra("c10 local package: %v", err)
			}
			pkg, err := (&types.Config{}).Check(path, fset, []*ast.File{f}, nil)
			if err != nil {
				fatalInfra("c10 local package: %v", err)
			}
			c10Local[path] = pkg
		}
	})
	return c10Local
}

func c10Scenarios() []c10scn {
	var out []c10scn
	for _, mech := range []string{"dedup", "autoname"} {
		for _, lr := range []string{"shorter", "equal", "longer"} {
			for _, unfmt := range []bool{false, true} {
				for _, cm := range []string{"none", "before", "before-name", "inside", "after", "doc"} {
					for _, lay := range []string{"single", "split-late", "split-early", "split-twice"} {
						for n := 1; n <= 2; n++ {
							for _, both := range []bool{false, true} {
								if lay == "split-twice" && (n != 2 || (mech == "autoname" && !both)) {
									continue // two files with the same renaming; -autoname alone rejects a repeated conflicting call
								}
								for _, late := range []bool{false, true} {
									for _, pregen := range []bool{false, true} {
										out = append(out, c10scn{mech, lr, unfmt, cm, lay, n, both, false, late, pregen})
										out = append(out, c10scn{mech, lr, unfmt, cm, lay, n, both, true, late, pregen})
									}
								}
							}
						}
					}
				}
			}
		}
	}
	return out
}

var renameLogRe = regexp.MustCompile(`changing function call name from (\S+) to (\S+)`)

// callIdents lists, in source order, the identifiers used as the function of a call.
func callIdents(f *ast.File) []*ast.Ident {
	var out []*ast.Ident
	ast.Inspect(f, func(n ast.Node) bool {
		if c, ok := n.(*ast.CallExpr); ok {
			if id, ok := c.Fun.(*ast.Ident); ok {
				out = append(out, id)
			}
		}
		return true
	})
	sort.Slice(out, func(i, j int) bool { return out[i].Pos() < out[j].Pos() })
	return out
}

// checkRewrite compares a possibly rewritten file with what the property allows.
// It returns "" when fine, otherwise what is wrong.
func checkRewrite(name string, orig, now []byte, logged map[string]map[string]bool) (renamed int, problem string) {
	if bytes.Equal(orig, now) {
		return 0, ""
	}
	fset := token.NewFileSet()
	of, err := parser.ParseFile(fset, name, orig, parser.ParseComments)
	if err != nil {
		return 0, "harness: original does not parse: " + err.Error()
	}
	nfset := token.NewFileSet()
	nf, err := parser.ParseFile(nfset, name, now, parser.ParseComments)
	if err != nil {
		return 0, "rewritten file does not parse: " + err.Error()
	}
	oi, ni := callIdents(of), callIdents(nf)
	if len(oi) != len(ni) {
		return 0, fmt.Sprintf("rewritten file has %d calls, the original %d", len(ni), len(oi))
	}
	for i := range oi {
		if oi[i].Name != ni[i].Name {
			if !logged[oi[i].Name][ni[i].Name] {
				return 0, fmt.Sprintf("call %s became %s, which goderive did not announce", oi[i].Name, ni[i].Name)
			}
			oi[i].Name = ni[i].Name
			renamed++
		}
	}
	if renamed == 0 {
		return 0, "file without a renamed call was rewritten"
	}
	var want bytes.Buffer
	if err := format.Node(&want, fset, of); err != nil {
		return renamed, "harness: cannot format expected file: " + err.Error()
	}
	if !bytes.Equal(want.Bytes(), now) {
		return renamed, "rewritten file is not gofmt(original with the renamed identifiers substituted): " + firstDiff(want.Bytes(), now)
	}
	return renamed, ""
}

func firstDiff(want, got []byte) string {
	wl, gl := strings.Split(string(want), "\n"), strings.Split(string(got), "\n")
	for i := 0; i < len(wl) || i < len(gl); i++ {
		w, g := "<EOF>", "<EOF>"
		if i < len(wl) {
			w = wl[i]
		}
		if i < len(gl) {
			g = gl[i]
		}
		if w != g {
			return fmt.Sprintf("line %d: want %q, got %q", i+1, w, g)
		}
	}
	return "no difference found"
}

func checkC10(tier string) {
	rep := newReporter("C10", tier)
	var mu sync.Mutex
	// part 1: without flags nothing but derived.gen.go may change, whatever the outcome
	progs := c09Programs(tier)
	outcomes := map[string]int{}
	parDo(len(progs), func(i int) {
		pr := progs[i]
		dir := filepath.Join(scratchDir, "c10a", fmt.Sprintf("p%06d", i))
		writePkg(dir, pr.files)
		defer removeAll(dir)
		before := snapshot(dir)
		args := pr.args
		if len(args) == 0 {
			args = []string{"."}
		}
		r := goderive(dir, args...)
		after := snapshot(dir)
		if d := snapDiff(before, after, func(rel string) bool {
			return filepath.Base(rel) == "derived.gen.go" && (pr.onlyIn == "" || filepath.Dir(rel) == pr.onlyIn)
		}); len(d) > 0 {
			rep.Violation("no-flags-touches-other-files|"+pr.plugin+"|"+pr.class, fmt.Sprintf("%s: %s (goderive exit %d)", pr.label, strings.Join(d, ", "), r.Exit),
				map[string]interface{}{"engine": "e2", "files": pr.files, "args": args})
		}
		mu.Lock()
		switch {
		case r.Exit == 0:
			outcomes["no-flags: success"]++
		case strings.Contains(r.Stderr, "Generator Error"):
			outcomes["no-flags: generator error"]++
		case strings.Contains(r.Stderr, "Add Error"):
			outcomes["no-flags: add error"]++
		default:
			outcomes["no-flags: load/other error"]++
		}
		mu.Unlock()
	})
	// part 2: rewriting under -autoname / -dedup
	scns := c10Scenarios()
	renamedTotal, rewrittenFiles, untouchedFiles := 0, 0, 0
	parDo(len(scns), func(i int) {
		sc := scns[i]
		dir := filepath.Join(scratchDir, "c10b", fmt.Sprintf("p%06d", i))
		files := sc.files()
		if sc.pregen {
			writePkg(dir, sc.filesN(true))
			if pr := goderive(dir, append(sc.flags(), ".")...); pr.Exit != 0 {
				rep.Infra("C10 scenario: the package without the calls to rename does not generate: " + head(firstErrorLine(pr.Stderr), 200))
			}
			// the user now adds the calls; derived.gen.go stays
			for n, c := range files {
				writeFile(filepath.Join(dir, n), c)
			}
		} else {
			writePkg(dir, files)
		}
		defer removeAll(dir)
		before := snapshot(dir)
		r := goderive(dir, append(sc.flags(), ".")...)
		after := snapshot(dir)
		viol := func(clause, what string) {
			rep.Violation(clause+"|"+sc.class(), fmt.Sprintf("%s: %s: %s (goderive exit %d: %s)", clause, sc.label(), what, r.Exit, head(firstErrorLine(r.Stderr), 160)),
				map[string]interface{}{"engine": "e2", "files": files, "flags": sc.flags(), "args": []string{"."}, "stderr": tail(r.Stderr, 1500)})
		}
		if r.Exit != 0 {
			viol("rename-run-failed", "goderive did not accept the package")
			return
		}
		logged := map[string]map[string]bool{}
		for _, m := range renameLogRe.FindAllStringSubmatch(r.Stderr, -1) {
			if logged[m[1]] == nil {
				logged[m[1]] = map[string]bool{}
			}
			logged[m[1]][m[2]] = true
		}
		// nothing created or deleted, modes unchanged
		if d := snapDiff(before, after, func(rel string) bool {
			return rel == "derived.gen.go" || strings.HasSuffix(rel, ".go") && before[rel].Mode == after[rel].Mode && after[rel].Sum != "" && before[rel].Sum != ""
		}); len(d) > 0 {
			viol("creates-or-deletes-files", strings.Join(d, ", "))
		}
		ren := 0
		for name, orig := range files {
			now, err := os.ReadFile(filepath.Join(dir, name))
			if err != nil {
				viol("file-missing", name)
				continue
			}
			n, problem := checkRewrite(name, []byte(orig), now, logged)
			if strings.HasPrefix(problem, "harness:") {
				rep.Infra(problem)
				continue
			}
			if problem != "" {
				viol("bad-rewrite", name+": "+problem)
			}
			ren += n
			mu.Lock()
			if n > 0 {
				rewrittenFiles++
			} else {
				untouchedFiles++
			}
			mu.Unlock()
		}
		if ren != sc.nRenames {
			viol("unexpected-number-of-renames", fmt.Sprintf("%d call sites renamed, scenario has %d to rename", ren, sc.nRenames))
		}
		cp := typeCheckDir(dir, false, c10LocalPkgs())
		if len(cp.Errors) > 0 {
			viol("result-does-not-type-check", shortErrs(cp.Errors))
		}
		// the new names are functions goderive generated
		gen := cp.derivedFuncs()
		for _, tos := range logged {
			for to := range tos {
				if _, ok := gen[to]; !ok {
					viol("renamed-to-a-function-that-was-not-generated", to)
				}
			}
		}
		mu.Lock()
		renamedTotal += ren
		outcomes["flags: rewritten ok"]++
		mu.Unlock()
	})
	// part 3: a file with a renamed call, then a file whose call is refused: the run fails,
	// and nothing but (correctly) rewritten files may be left behind
	failRuns := 0
	{
		type fscn struct {
			name  string
			files pkgFiles
		}
		types := "type T1 struct{ A int }\n\ntype T2 struct{ B int }\n\n"
		conflict := "func use0() bool { return deriveEqual(&T1{}, &T1{}) && deriveEqual(&T2{}, &T2{}) }\n"
		duplicate := "func use0() bool { return deriveEqualA(&T1{}, &T1{}) && deriveEqualB(&T1{}, &T1{}) }\n"
		bad := "package m\n\nfunc bad(p, q *T1) int { return deriveCompare(p, *q) }\n"
		var fs []fscn
		for _, nm := range [][2]string{{"a.go", "b.go"}, {"main.go", "types.go"}, {"a.go", "z.go"}} {
			fs = append(fs, fscn{"conflict-then-refused-call|" + nm[0] + "+" + nm[1], pkgFiles{nm[0]: "package m\n\n" + types + conflict, nm[1]: bad}})
			fs = append(fs, fscn{"duplicate-then-refused-call|" + nm[0] + "+" + nm[1], pkgFiles{nm[0]: "package m\n\n" + types + duplicate, nm[1]: bad}})
			fs = append(fs, fscn{"refused-call-then-conflict|" + nm[0] + "+" + nm[1], pkgFiles{nm[0]: "package m\n\n" + types + "func bad(p, q *T1) int { return deriveCompare(p, *q) }\n", nm[1]: "package m\n\n" + conflict}})
		}
		// a syntax error after / before the renamed call in the same file, and in another file
		syn := "\nfunc broken( {\n}\n\nfunc after() int { return 1 }\n"
		for _, nm := range [][2]string{{"a.go", "b.go"}, {"main.go", "types.go"}} {
			fs = append(fs, fscn{"conflict-and-syntax-error-in-one-file|" + nm[0], pkgFiles{nm[0]: "package m\n\n" + types + conflict + syn}})
			fs = append(fs, fscn{"duplicate-and-syntax-error-in-one-file|" + nm[0], pkgFiles{nm[0]: "package m\n\n" + types + duplicate + syn}})
			fs = append(fs, fscn{"syntax-error-before-conflict-in-one-file|" + nm[0], pkgFiles{nm[0]: "package m\n\n" + types + "func early() int { return 1 + }\n\n" + conflict}})
			fs = append(fs, fscn{"conflict-and-syntax-error-in-another-file|" + nm[0] + "+" + nm[1], pkgFiles{nm[0]: "package m\n\n" + types + conflict, nm[1]: "package m\n" + syn}})
		}
		// the syntax error sits in an in-package _test.go file (parsed after the other files
		// were type-checked), which also holds the call to rename; a call in a.go is still undefined
		fs = append(fs, fscn{"conflict-and-syntax-error-in-a-test-file", pkgFiles{"a.go": "package m\n\n" + types + "func use0() bool { return deriveEqual(&T1{}, &T1{}) }\n", "b_test.go": "package m\n\nfunc useT() bool { return deriveEqual(&T2{}, &T2{}) }\n" + syn}})
		fs = append(fs, fscn{"duplicate-and-syntax-error-in-a-test-file", pkgFiles{"a.go": "package m\n\n" + types + "func use0() bool { return deriveEqualA(&T1{}, &T1{}) }\n", "b_test.go": "package m\n\nfunc useT() bool { return deriveEqualB(&T1{}, &T1{}) }\n" + syn}})
		// a clashing call whose callee is parenthesised (goderive does not take it for a derive call:
		// nothing to rename, the file stays as it is), next to ordinary clashing calls
		for _, nm := range []string{"a.go", "main.go"} {
			fs = append(fs, fscn{"parenthesised-callee-in-conflict|" + nm, pkgFiles{nm: "package m\n\n" + types + "func use0() bool { return deriveEqual(&T1{}, &T1{}) && (deriveEqual)(&T2{}, &T2{}) }\n"}})
			fs = append(fs, fscn{"parenthesised-callee-in-duplicate|" + nm, pkgFiles{nm: "package m\n\n" + types + "func use0() bool { return deriveEqualA(&T1{}, &T1{}) && (deriveEqualB)(&T1{}, &T1{}) }\n"}})
			fs = append(fs, fscn{"parenthesised-callee-next-to-conflict|" + nm, pkgFiles{nm: "package m\n\n" + types + "func use0() bool {\n\treturn deriveEqual(&T1{}, &T1{}) && deriveEqual(&T2{}, &T2{}) && (deriveEqual)(&T2{}, &T2{}) // kept as written\n}\n"}})
		}
		flagSets := [][]string{{"-autoname"}, {"-dedup"}, {"-autoname", "-dedup"}}
		parDo(len(fs)*len(flagSets)*2, func(i int) {
			sc, flags, pregen := fs[i/(len(flagSets)*2)], flagSets[(i/2)%len(flagSets)], i%2 == 1
			dir := filepath.Join(scratchDir, "c10c", fmt.Sprintf("p%04d", i))
			if pregen {
				// an earlier successful run on the package without the refused call
				ok := pkgFiles{}
				for n, c := range sc.files {
					if !strings.Contains(c, "deriveCompare(p, *q)") {
						ok[n] = c
					} else {
						ok[n] = "package m\n"
					}
				}
				writePkg(dir, ok)
				goderive(dir, append(append([]string{}, flags...), ".")...)
				for n, c := range sc.files {
					writeFile(filepath.Join(dir, n), c)
				}
			} else {
				writePkg(dir, sc.files)
			}
			defer removeAll(dir)
			start := map[string]string{}
			for n := range sc.files {
				start[n] = readFileOr(filepath.Join(dir, n), "")
			}
			before := snapshot(dir)
			r := goderive(dir, append(append([]string{}, flags...), ".")...)
			after := snapshot(dir)
			mu.Lock()
			failRuns++
			outcomes[fmt.Sprintf("flags, refused call: exit %d", r.Exit)]++
			mu.Unlock()
			viol := func(clause, what string) {
				rep.Violation(clause+"|"+sc.name+"|"+strings.Join(flags, "")+fmt.Sprintf("|pregen=%v", pregen), fmt.Sprintf("%s: %s with %v: %s (goderive exit %d: %s)", clause, sc.name, flags, what, r.Exit, head(firstErrorLine(r.Stderr), 160)),
					map[string]interface{}{"engine": "e2", "files": sc.files, "flags": flags, "args": []string{"."}})
			}
			hasRefused := false
			for _, c := range sc.files {
				if strings.Contains(c, "deriveCompare(p, *q)") {
					hasRefused = true
				}
			}
			if r.Exit == 0 && hasRefused {
				viol("refused-call-accepted", "the package holds deriveCompare(p, *q) and must be refused")
			}
			if d := snapDiff(before, after, func(rel string) bool {
				return rel == "derived.gen.go" || strings.HasSuffix(rel, ".go") && before[rel].Mode == after[rel].Mode && after[rel].Sum != "" && before[rel].Sum != ""
			}); len(d) > 0 {
				viol("creates-or-deletes-files", strings.Join(d, ", "))
			}
			logged := map[string]map[string]bool{}
			for _, m := range renameLogRe.FindAllStringSubmatch(r.Stderr, -1) {
				if logged[m[1]] == nil {
					logged[m[1]] = map[string]bool{}
				}
				logged[m[1]][m[2]] = true
			}
			for name := range sc.files {
				now, err := os.ReadFile(filepath.Join(dir, name))
				if err != nil {
					viol("file-missing", name)
					continue
				}
				_, problem := checkRewrite(name, []byte(start[name]), now, logged)
				if strings.HasPrefix(problem, "harness: original does not parse") {
					// a file goderive could not parse completely must be left alone
					viol("rewrote-a-file-with-syntax-errors", name+": "+firstDiff([]byte(start[name]), now))
				} else if problem != "" && !strings.HasPrefix(problem, "harness:") {
					viol("bad-rewrite", name+": "+problem)
				}
			}
		})
	}
	rep.Cov["refused_call_after_rename_runs"] = failRuns
	rep.Cov["states"] = len(progs) + len(scns) + failRuns
	rep.Cov["transitions"] = len(progs) + len(scns) + failRuns
	rep.Cov["traces_validated_against_impl"] = len(progs) + len(scns)
	rep.Cov["evaluations"] = len(progs) + len(scns)
	rep.Cov["distinct_nontrivial"] = len(scns) + outcomes["no-flags: generator error"] + outcomes["no-flags: add error"] + outcomes["no-flags: load/other error"]
	rep.Cov["distinct_outcomes"] = outcomes
	rep.Cov["rename_scenarios"] = len(scns)
	rep.Cov["call_sites_renamed"] = renamedTotal
	rep.Cov["files_rewritten_and_verified"] = rewrittenFiles
	rep.Cov["files_verified_untouched"] = untouchedFiles
	rep.Cov["rule"] = "state = one package (and flag set); part 1: every package of the C09 corpus (successes, generator errors, registration errors, load errors, multi-package invocations) run without flags, whole-tree snapshot (names, modes, SHA-256) before/after, only derived.gen.go may differ; part 2: every rename scenario of the product {dedup, autoname} x {new name shorter, equal, longer} x {gofmt-ed, not} x {no comments, on the line before, block comments directly before and after the name, inside, after the call, doc comments} x {one file, renamed call in a later file plus a file without calls, renamed call in the first file followed by unformatted files, the same renaming in two different files} x {1, 2 renamed call sites} x {mechanism's flag, both flags} x {renamed in the first pass, renamed in a second pass after a reload because its argument is itself a derive call} x {files sorting before, after derived.gen.go} x {no derived.gen.go yet, one left by a run made before the calls to rename were added}; plus packages where a file with a renamed call is followed by a file whose call is refused, or where the file with the call to rename (or another file) has a syntax error (the failing run may leave nothing but rewritten files behind); oracle: files without a renamed call byte-identical, each rewritten file == go/format(original with exactly the renamed call identifiers substituted, positions from an independent parse, new names taken from goderive's own log), result type-checks, new names exist in derived.gen.go; non-trivial = rename scenarios + failing no-flag runs"
	rep.Cov["bound"] = fmt.Sprintf("%d no-flag packages + %d rename scenarios", len(progs), len(scns))
	rep.Cov["exhaustive"] = true
	rep.Sample(map[string]interface{}{"scenario": scns[len(scns)/2].label(), "files": scns[len(scns)/2].files()})
	rep.Sample(map[string]interface{}{"scenario": scns[7].label()})
	rep.Finish()
}
