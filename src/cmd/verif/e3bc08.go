package main

import (
	"crypto/sha256"
	"encoding/hex"
	"encoding/json"
	"fmt"
	"os"
	"path/filepath"
	"sort"
	"strings"
	"sync"
	"time"
)

func init() {
	checks["C08"] = checkC08
}

type c08scn struct {
	name  string
	files pkgFiles
	args  []string
	flags []string
	// reload: the first load of the program is part of every execution (the loader's
	// file parse order is then a choice as well); costs one load per execution
	reload bool
}

func c08Scenarios() []c08scn {
	ext := "package ext\n\ntype Pub struct {\n\tA int\n\tS []string\n}\n"
	ext2 := "package ext\n\ntype Pub struct {\n\tN string\n\tL []int\n}\n"
	return []c08scn{
		{name: "mutually-assignable-slices", args: []string{"."}, files: pkgFiles{"a.go": `package m

type S1 []int
type S2 []int
type M1 map[string]int
type M2 map[string]int
type P1 *int

type T struct {
	A S1
	B S2
	C []int
	D M1
	E M2
	F map[string]int
	G P1
	H *int
}

func use(a, b *T) (bool, int, uint64) {
	deriveDeepCopy(a, b)
	return deriveEqual(a, b), deriveCompare(a, b), deriveHash(a)
}
`}},
		{name: "mutually-assignable-arguments", args: []string{"."}, files: pkgFiles{"a.go": `package m

type S1 []int
type S2 []int

type U struct {
	A S1
	B S2
	C []int
}

func use(x S1, y S2, u *U) (bool, bool, bool) {
	return deriveEqual(u, u), deriveEqual1(x, x), deriveEqual2(y, y)
}
`}},
		{name: "helpers-across-plugins", args: []string{"."}, files: pkgFiles{"a.go": `package m

type K struct{ X, Y int }

type T struct {
	M map[string]int
	N map[K][]string
	L []map[int]*T
}

func use(a, b *T, l []*T, f func(*T, []int) int, s []K) (int, []*T, func(*T, []int) int, []K) {
	return deriveCompare(a, b), deriveUnique(l), deriveMem(f), deriveUnique2(s)
}
`}},
		{name: "same-named-imports", args: []string{"./p"}, files: pkgFiles{"ext/ext.go": ext, "ext2/ext/ext.go": ext2, "p/a.go": `package p

import (
	ext "example.com/m/ext"
	ext2 "example.com/m/ext2/ext"
)

type T struct {
	A ext.Pub
	B *ext2.Pub
	C []ext.Pub
	D map[string]ext2.Pub
}

func use(a, b *T) (bool, int, *T, string) {
	return deriveEqual(a, b), deriveCompare(a, b), deriveClone(a), deriveGoString(a)
}
`}},
		{name: "same-named-imports-direct-arguments", args: []string{"./p"}, files: pkgFiles{"ext/ext.go": ext, "ext2/ext/ext.go": ext2, "p/a.go": `package p

import (
	ext "example.com/m/ext"
	ext2 "example.com/m/ext2/ext"
)

func use(a, b ext.Pub, o ext2.Pub, c ext2.Pub) (bool, string, uint64, int) {
	return deriveEqual(a, b), deriveGoString(o), deriveHash(c), deriveCompare(a, b)
}
`}},
		{name: "user-functions-and-reserved-names", args: []string{"."}, files: pkgFiles{"a.go": `package m

type T struct {
	A []int
	M map[string][]int
}

func deriveEqual_(x int) int  { return x }
func deriveHash_(x int) int   { return x }
func deriveCompare_(x int) int { return x }

var _ = deriveEqual_(1) + deriveHash_(2) + deriveCompare_(3)

func use(a, b *T) (bool, uint64, int) {
	return deriveEqual(a, b), deriveHash(a), deriveCompare(a, b)
}
`, "b.go": `package m

func helper(x int) int { return x }

var _ = helper(1)
`}},
		{name: "calls-in-several-files", args: []string{"."}, reload: true, files: pkgFiles{
			"a.go": "package m\n\n// A is declared in the first file.\n//\n// " + strings.Repeat("padding ", 200) + "\ntype A struct {\n\tS []string\n\tM map[string][]int\n}\n\nfunc useA(x, y *A) bool {\n\treturn deriveEqualA(x, y)\n}\n",
			"b.go": "package m\n\ntype B struct {\n\tL [][]int\n\tA *A\n}\n\nfunc useB(x, y *B) (bool, int) {\n\treturn deriveEqualB(x, y), deriveCompareB(x, y)\n}\n",
			"c.go": "package m\n\ntype C struct {\n\tM map[string][]int\n\tB []B\n}\n\nfunc useC(x, y *C) (bool, uint64) {\n\treturn deriveEqualC(x, y), deriveHashC(x)\n}\n",
		}},
		{name: "same-call-text-resolving-in-different-passes", args: []string{"."}, files: pkgFiles{"a.go": `package m

func has(m map[string]int, name string) bool {
	names := deriveKeys(m)
	if names := deriveSort(names); len(names) > 0 {
		return deriveContains(deriveSort(names), name)
	}
	return false
}
`}},
		{name: "one-prefix-a-proper-prefix-of-another", args: []string{"."}, flags: []string{"-pluginprefix=any=match,all=matchAll,equal=eq,compare=eqCmp"}, files: pkgFiles{"a.go": `package m

type T struct {
	A []int
	M map[string]int
}

func short(s string) bool { return len(s) < 3 }

func use(ss []string, a, b *T) (bool, bool, bool, int) {
	return match(short, ss), matchAll(short, ss), eq(a, b), eqCmp(a, b)
}
`}},
		{name: "test-file-calls-next-to-a-second-pass", args: []string{"."}, files: pkgFiles{"a.go": `package m

func keys(m map[string]int) []string {
	return deriveSort(deriveKeys(m))
}
`, "a_test.go": `package m

type T struct {
	A []int
	M map[string]int
}

func same(a, b *T) (bool, uint64) {
	return deriveEqual(a, b), deriveHash(a)
}
`}},
		{name: "several-packages", args: []string{"./..."}, files: pkgFiles{
			// a directory with nothing but an external test package sits between the others
			"bx/x_test.go": "package bx_test\n",
			// a and b each define and call a function named like the first helper name the other one mints
			"a/a.go": "package a\n\ntype A struct {\n\tX int\n\tS []string\n\ttags []string\n}\n\nfunc deriveCompare_(x int) int { return x }\n\nvar _ = deriveCompare_(1)\n\nfunc use(x, y *A) bool {\n\treturn deriveEqual(x, y)\n}\n",
			"b/b.go": "package b\n\ntype B struct {\n\tM map[string]int\n}\n\nfunc deriveEqual_(x int) int { return x }\n\nvar _ = deriveEqual_(1)\n\nfunc use(x, y *B) int {\n\treturn deriveCompare(x, y)\n}\n",
			"c/c.go": "package c\n\nimport \"example.com/m/a\"\n\ntype C struct {\n\tA *a.A\n\tL []a.A\n}\n\nfunc use(x, y *C) (bool, uint64) {\n\treturn deriveEqual(x, y), deriveHash(x)\n}\n",
		}},
		{name: "autoname-dedup-fresh-names", args: []string{"."}, flags: []string{"-autoname", "-dedup"}, files: pkgFiles{"a.go": `package m

type T1 struct{ A []int }
type T2 struct{ B []int }
type T3 struct{ C map[string][]int }

func use(a *T1, b *T2, c *T3) bool {
	return deriveEqual(a, a) && deriveEqual(b, b) && deriveEqualX(c, c) && deriveEqualY(c, c)
}
`}},
	}
}

type exploreReport struct {
	Executions int
	Bound      int
	BoundDone  int
	MaxPoints  int
	Outputs    []struct {
		Sha     string
		Choices []int
		Sites   []string
		Count   int
		Files   map[string]string
	}
	Sites        map[string]int
	Divergences  []string
	ReplayChecks int
	Error        string
	Capped       bool
	WallS        float64
}

func shaFiles(files map[string]string) string {
	h := sha256.New()
	names := make([]string, 0, len(files))
	for n := range files {
		names = append(names, n)
	}
	sort.Strings(names)
	for _, n := range names {
		fmt.Fprintf(h, "%s\x00%s\x00", n, files[n])
	}
	return hex.EncodeToString(h.Sum(nil))[:16]
}

func derivedFilesOf(root string) map[string]string {
	files := map[string]string{}
	filepath.Walk(root, func(p string, info os.FileInfo, err error) error {
		if err == nil && !info.IsDir() && info.Name() == "derived.gen.go" {
			b, _ := os.ReadFile(p)
			rel, _ := filepath.Rel(root, p)
			files[rel] = string(b)
		}
		return nil
	})
	return files
}

func checkC08(tier string) {
	rep := newReporter("C08", tier)
	overlay, st, err := buildMapOrderOverlay()
	if err != nil {
		fmt.Fprintln(os.Stderr, "INCONCLUSIVE: cannot instrument the generator:", err)
		rep.Infra("instrumentation failed: " + err.Error())
		rep.Finish()
	}
	if len(st.Unownable) > 0 {
		fmt.Println("INCONCLUSIVE: the generator contains nondeterminism the explorer cannot own:", strings.Join(st.Unownable, "; "))
		cleanup()
		os.Exit(3)
	}
	drv, err := buildLibDriverWith("explore", map[string]string{"explore.go": libdrvExplore}, overlay)
	if err != nil {
		rep.Infra("instrumented library driver does not build: " + err.Error())
		rep.Finish()
	}
	bound, maxExec, maxSec := 1, 200000, 90
	if tier == "thorough" {
		bound, maxExec, maxSec = 2, 3000000, 1500
	}
	scns := c08Scenarios()
	var mu sync.Mutex
	totalExec, totalOutputs, maxPoints, conformRuns := 0, 0, 0, 0
	allExhaustive := true
	sitesHit := map[string]int{}
	parDo(len(scns), func(i int) {
		sc := scns[i]
		root := filepath.Join(scratchDir, "c08", fmt.Sprintf("s%02d", i))
		writePkg(root, sc.files)
		defer removeAll(root)
		an, dd := "false", "false"
		for _, f := range sc.flags {
			if f == "-autoname" {
				an = "true"
			}
			if f == "-dedup" {
				dd = "true"
			}
		}
		args := append([]string{"explore", fmt.Sprint(bound), fmt.Sprint(maxExec), an, dd, fmt.Sprint(maxSec), root}, sc.args...)
		var env []string
		if sc.reload {
			env = []string{"MCRT_RELOAD=1"}
		}
		for _, f := range sc.flags {
			if strings.HasPrefix(f, "-pluginprefix=") {
				env = append(env, "MCRT_PLUGINPREFIX="+strings.TrimPrefix(f, "-pluginprefix="))
			}
		}
		r := run(root, 60*time.Minute, env, drv, args...)
		var er exploreReport
		if err := json.Unmarshal([]byte(lastLine(r.Stdout)), &er); err != nil || r.Exit != 0 {
			rep.Infra(fmt.Sprintf("explorer failed on %s: exit %d %v %s", sc.name, r.Exit, err, tail(r.Stderr, 800)))
			return
		}
		if er.Error != "" {
			rep.Infra(fmt.Sprintf("explorer on %s: %s", sc.name, er.Error))
			return
		}
		if len(er.Divergences) > 0 {
			// not every source of nondeterminism is owned: a hard error, never a violation
			rep.Infra(fmt.Sprintf("replay divergence on %s: %s", sc.name, strings.Join(er.Divergences, "; ")))
			return
		}
		mu.Lock()
		totalExec += er.Executions
		totalOutputs += len(er.Outputs)
		if er.MaxPoints > maxPoints {
			maxPoints = er.MaxPoints
		}
		if er.Capped {
			allExhaustive = false
		}
		for s, n := range er.Sites {
			sitesHit[s] += n
		}
		mu.Unlock()
		known := map[string]bool{}
		for _, o := range er.Outputs {
			known[o.Sha] = true
		}
		if len(er.Outputs) > 1 {
			a, b := er.Outputs[0], er.Outputs[1]
			diff := ""
			for n, c := range a.Files {
				if b.Files[n] != c {
					diff = n + ": " + firstDiff([]byte(c), []byte(b.Files[n]))
					break
				}
			}
			// the deviating choice of the second output
			where := ""
			for j, ch := range b.Choices {
				if ch != 0 && j < len(b.Sites) {
					where = fmt.Sprintf("choice %d at %s", ch, b.Sites[j])
					break
				}
			}
			rep.Violation("output-depends-on-map-iteration-order|"+sc.name+"|differs-in="+differingPlugins(a.Files, b.Files), fmt.Sprintf("scenario %s: %d distinct outputs over %d map-iteration schedules (deviation bound %d); e.g. the sorted order and the schedule with %s differ: %s", sc.name, len(er.Outputs), er.Executions, bound, where, diff),
				map[string]interface{}{"engine": "e3b", "files": sc.files, "args": sc.args, "flags": sc.flags, "schedule": b.Choices, "sites": b.Sites, "output_default_order": a.Files, "output_deviating": b.Files})
		}
		// conformance: outputs of the real, uninstrumented binary must be among the explored ones
		for k := 0; k < 20; k++ {
			cdir := filepath.Join(scratchDir, "c08", fmt.Sprintf("s%02d-conf%02d", i, k))
			writePkg(cdir, sc.files)
			cr := goderive(cdir, append(append([]string{}, sc.flags...), sc.args...)...)
			sha := shaFiles(derivedFilesOf(cdir))
			if cr.Exit == 0 && k < 5 {
				// "every run" includes the next one, started on the tree this one left behind
				cr2 := goderive(cdir, append(append([]string{}, sc.flags...), sc.args...)...)
				if sha2 := shaFiles(derivedFilesOf(cdir)); cr2.Exit != 0 || sha2 != sha {
					rep.Violation("rerun-on-own-output-differs|"+sc.name, fmt.Sprintf("scenario %s: running goderive again on the tree its first run left behind gives exit %d and different bytes (%s vs %s)", sc.name, cr2.Exit, sha, sha2),
						map[string]interface{}{"engine": "e3b", "files": sc.files, "args": sc.args, "flags": sc.flags})
				}
				mu.Lock()
				conformRuns++
				mu.Unlock()
			}
			removeAll(cdir)
			mu.Lock()
			conformRuns++
			mu.Unlock()
			if cr.Exit != 0 {
				rep.Infra(fmt.Sprintf("real binary fails on scenario %s: %s", sc.name, head(firstErrorLine(cr.Stderr), 200)))
				break
			}
			if !known[sha] && !er.Capped {
				if len(er.Outputs) == 1 && bound < 3 {
					// the bounded exploration did not reach this order; that is still a second output
					rep.Violation("output-varies-between-runs|"+sc.name, fmt.Sprintf("scenario %s: the real binary produced bytes (run %d) that differ from the explored sorted-order output", sc.name, k),
						map[string]interface{}{"engine": "e3b", "files": sc.files, "args": sc.args, "flags": sc.flags})
				}
				break
			}
		}
		rep.Sample(map[string]interface{}{"scenario": sc.name, "schedules": er.Executions, "choice_points_max": er.MaxPoints, "distinct_outputs": len(er.Outputs)})
	})
	// invocation-context half
	invRuns := c08Invocations(rep)
	rep.Cov["states"] = totalExec + invRuns
	rep.Cov["transitions"] = totalExec + invRuns + conformRuns
	rep.Cov["traces_validated_against_impl"] = conformRuns
	rep.Cov["evaluations"] = totalExec + invRuns + conformRuns
	rep.Cov["distinct_nontrivial"] = totalExec
	rep.Cov["map_iteration_schedules"] = totalExec
	rep.Cov["deviation_bound"] = bound
	rep.Cov["max_choice_points_per_execution"] = maxPoints
	rep.Cov["distinct_outputs_total"] = totalOutputs
	rep.Cov["scenarios"] = len(scns)
	rep.Cov["instrumented_sites"] = st.Sites
	rep.Cov["sites_exercised_in_default_schedule"] = sitesHit
	rep.Cov["conformance_runs_real_binary"] = conformRuns
	rep.Cov["invocation_variants"] = invRuns
	rep.Cov["exhaustive"] = allExhaustive
	rep.Cov["rule"] = "state = one map-iteration schedule of the generator on one scenario: every range over a map in derive/, plugin/* and main.go (and the loader's InitialPackages order) is rewritten at check time into an iterator that asks the explorer which of the remaining keys comes next; transition = one in-process Generate() of the real generator under that schedule; all schedules with at most `deviation_bound` departures from sorted order are enumerated by DFS; every new output's schedule is replayed once (identical bytes required, arity divergence is a hard error); oracle: one distinct output per scenario; conformance: 20 runs of the real binary per scenario must produce explored outputs, and 5 of them are followed by a second run on the tree they left behind (same bytes required); plus every grouping/ordering/spelling of package arguments (see invocation_variants) compared with the solo-run bytes; non-trivial = schedules explored"
	rep.Cov["bound"] = fmt.Sprintf("%d scenarios, deviation bound %d", len(scns), bound)
	rep.Assume = append(rep.Assume, "map iteration and the initial package order are the only nondeterminism inside goderive (the rewriter refuses go statements, select, time, rand, atomic)")
	rep.Finish()
}

func lastLine(s string) string {
	s = strings.TrimSpace(s)
	if i := strings.LastIndexByte(s, '\n'); i >= 0 {
		return s[i+1:]
	}
	return s
}

// c08Invocations: the bytes for each package must not depend on which other
// packages are named, in which order, or how they are spelled.
func c08Invocations(rep *Reporter) int {
	files := pkgFiles{
		"store/store.go": "package store\n\ntype Record struct {\n\tID   int\n\tName string\n\ttags []string\n\tmeta map[string]int\n}\n\nfunc deriveCompare_(x int) int { return x }\n\nvar _ = deriveCompare_(1)\n\nfunc same(a, b *Record) bool {\n\treturn deriveEqual(a, b)\n}\n",
		"api/api.go":     "package api\n\nimport \"example.com/m/store\"\n\ntype Req struct {\n\tR *store.Record\n\tL []store.Record\n}\n\nfunc deriveEqual_(x int) int { return x }\n\nvar _ = deriveEqual_(1)\n\nfunc same(a, b *Req) (bool, int) {\n\treturn deriveEqual(a, b), deriveCompare(a.R, b.R)\n}\n",
		"util/util.go":   "package util\n\nfunc keys(m map[string]int) []string {\n\treturn deriveSort(deriveKeys(m))\n}\n",
		// textually the same nested call as in util (needs a second pass in both packages)
		"bill/bill.go": "package bill\n\nfunc keys(m map[string]int) []string {\n\treturn deriveSort(deriveKeys(m))\n}\n\nfunc same(a, b []string) bool {\n\treturn deriveEqual(a, b)\n}\n",
	}
	// a directory holding only an external test package is loaded as a file-less package
	files["mid/x_test.go"] = "package mid_test\n"
	// an ordinary package whose directory name ends in _test (its import path too)
	files["e2e_test/e2e.go"] = "package e2e\n\ntype Step struct {\n\tName string\n\tArgs []string\n}\n\nfunc same(a, b *Step) bool {\n\treturn deriveEqual(a, b)\n}\n"
	pkgs := []string{"store", "api", "util", "bill"}
	const odd = "e2e_test"
	solo := map[string]string{}
	for _, p := range append(append([]string(nil), pkgs...), odd) {
		dir := filepath.Join(scratchDir, "c08", "solo-"+p)
		writePkg(dir, files)
		r := goderive(dir, "./"+p)
		if r.Exit != 0 {
			rep.Infra("solo run fails for " + p + ": " + head(firstErrorLine(r.Stderr), 200))
			return 0
		}
		solo[p] = readFileOr(filepath.Join(dir, p, "derived.gen.go"), "")
		// the same invocation again, over the tree the first run left behind (twice)
		for again := 2; again <= 3; again++ {
			r2 := goderive(dir, "./"+p)
			if got := readFileOr(filepath.Join(dir, p, "derived.gen.go"), ""); r2.Exit != 0 || got != solo[p] {
				rep.Violation("bytes-differ-on-rerun|pkg="+p, fmt.Sprintf("run %d of goderive ./%s over unchanged sources (exit %d) leaves other bytes than the first run: %s", again, p, r2.Exit, firstDiff([]byte(solo[p]), []byte(got))),
					map[string]interface{}{"engine": "e2", "files": files, "args": []string{"./" + p}})
				break
			}
		}
		removeAll(dir)
		if solo[p] == "" {
			rep.Violation("solo-run-writes-nothing|pkg="+p, fmt.Sprintf("goderive ./%s exits 0 but leaves no derived.gen.go although the package holds derive calls", p),
				map[string]interface{}{"engine": "e2", "files": files, "args": []string{"./" + p}})
		}
	}
	spell := func(p string, how int) string {
		switch how {
		case 0:
			return "./" + p
		case 1:
			return "example.com/m/" + p
		}
		return "./" + p + "/..."
	}
	type inv struct {
		args []string
		pk   []string
		cwd  string // relative to the module root; "" = the root
	}
	var invs []inv
	// every non-empty subset x every ordering x every spelling vector (same spelling for all, and mixed)
	for mask := 1; mask < 1<<uint(len(pkgs)); mask++ {
		var sub []string
		for i, p := range pkgs {
			if mask&(1<<uint(i)) != 0 {
				sub = append(sub, p)
			}
		}
		if len(sub) == 4 {
			// all four: every ordering with one spelling each (the spelling product is covered on the smaller subsets)
			for _, perm := range permutations(sub) {
				for how := 0; how < 3; how++ {
					var args []string
					for _, p := range perm {
						args = append(args, spell(p, how))
					}
					invs = append(invs, inv{args, perm, ""})
				}
			}
			continue
		}
		for _, perm := range permutations(sub) {
			nsp := 1
			for range perm {
				nsp *= 3
			}
			for sv := 0; sv < nsp; sv++ {
				var args []string
				x := sv
				for _, p := range perm {
					args = append(args, spell(p, x%3))
					x /= 3
				}
				invs = append(invs, inv{args, perm, ""})
			}
		}
	}
	invs = append(invs, inv{[]string{"./..."}, pkgs, ""})
	// the file-less directory named explicitly, at every position among the four packages
	for pos := 0; pos <= len(pkgs); pos++ {
		for how := 0; how < 2; how++ {
			var args []string
			for i, p := range pkgs {
				if i == pos {
					args = append(args, spell("mid", how))
				}
				args = append(args, spell(p, how))
			}
			if pos == len(pkgs) {
				args = append(args, spell("mid", how))
			}
			invs = append(invs, inv{args, pkgs, ""})
		}
	}
	// every package addressed as "." from inside its own directory, and as ../<dir> from a sibling
	for _, p := range append(append([]string(nil), pkgs...), odd) {
		invs = append(invs, inv{[]string{"."}, []string{p}, p})
		invs = append(invs, inv{[]string{"../" + p}, []string{p}, "mid"})
	}
	// the oddly named directory next to each of the others, in both orders and all three spellings; and under ./...
	for _, p := range pkgs {
		for how := 0; how < 3; how++ {
			invs = append(invs, inv{[]string{spell(p, how), spell(odd, how)}, []string{p, odd}, ""})
			invs = append(invs, inv{[]string{spell(odd, how), spell(p, how)}, []string{p, odd}, ""})
		}
	}
	invs = append(invs, inv{[]string{"./..."}, append(append([]string(nil), pkgs...), odd), ""})
	parDo(len(invs), func(i int) {
		iv := invs[i]
		dir := filepath.Join(scratchDir, "c08", fmt.Sprintf("inv%04d", i))
		writePkg(dir, files)
		defer removeAll(dir)
		r := goderive(filepath.Join(dir, iv.cwd), iv.args...)
		if r.Exit != 0 {
			rep.Violation("invocation-variant-fails|"+spellClass(iv.args), fmt.Sprintf("goderive %s fails although each package generates alone: %s", strings.Join(iv.args, " "), head(firstErrorLine(r.Stderr), 200)),
				map[string]interface{}{"engine": "e2", "files": files, "args": iv.args})
			return
		}
		for _, p := range iv.pk {
			got := readFileOr(filepath.Join(dir, p, "derived.gen.go"), "")
			if got != solo[p] {
				rep.Violation("bytes-depend-on-invocation|"+spellClass(iv.args)+"|pkg="+p, fmt.Sprintf("goderive %s: derived.gen.go of %s differs from its solo run: %s", strings.Join(iv.args, " "), p, firstDiff([]byte(solo[p]), []byte(got))),
					map[string]interface{}{"engine": "e2", "files": files, "args": iv.args})
			}
		}
	})
	return len(invs)
}

func spellClass(args []string) string {
	rel, imp, pat := false, false, false
	for _, a := range args {
		switch {
		case strings.HasSuffix(a, "..."):
			pat = true
		case strings.HasPrefix(a, "./"):
			rel = true
		default:
			imp = true
		}
	}
	var ps []string
	if rel {
		ps = append(ps, "relative")
	}
	if imp {
		ps = append(ps, "import-path")
	}
	if pat {
		ps = append(ps, "pattern")
	}
	return fmt.Sprintf("n=%d|%s", len(args), strings.Join(ps, "+"))
}

// differingPlugins names the plugins whose generated functions differ between two outputs.
func differingPlugins(a, b map[string]string) string {
	chunks := func(files map[string]string) map[string]bool {
		out := map[string]bool{}
		for n, c := range files {
			for _, part := range strings.Split(c, "\n// derive") {
				out[n+"|"+part] = true
			}
		}
		return out
	}
	ca, cb := chunks(a), chunks(b)
	set := map[string]bool{}
	note := func(part string) {
		// the chunk starts with the rest of the function name
		name := "derive" + part[strings.IndexByte(part, '|')+1:]
		if i := strings.IndexAny(name, " (\n"); i > 0 {
			name = name[:i]
		}
		if pl, _ := pluginOf(name, defaultPrefixes()); pl != "" {
			set[pl] = true
		} else {
			set["header/imports"] = true
		}
	}
	for k := range ca {
		if !cb[k] {
			note(k)
		}
	}
	for k := range cb {
		if !ca[k] {
			note(k)
		}
	}
	var ps []string
	for p := range set {
		ps = append(ps, p)
	}
	sort.Strings(ps)
	return strings.Join(ps, "+")
}
