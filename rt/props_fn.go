package rt

import (
	"fmt"
	"hash/fnv"
	"reflect"
	"strings"
	"unicode/utf8"
)

func init() {
	props["C17"] = bothCapacities(propC17)
	props["C18"] = propC18
}

// sentinelFor builds a deterministic value of type t from a seed string: used
// as the result of instrumented functions.
func sentinelFor(t reflect.Type, seed string, sc Scope) reflect.Value {
	h := fnv.New32a()
	h.Write([]byte(seed))
	n := int(h.Sum32() % 1000)
	v := reflect.New(t).Elem()
	switch t.Kind() {
	case reflect.Bool:
		v.SetBool(n%2 == 0)
	case reflect.Int, reflect.Int8, reflect.Int16, reflect.Int32, reflect.Int64:
		v.SetInt(int64(n%100 + 1))
	case reflect.Uint, reflect.Uint8, reflect.Uint16, reflect.Uint32, reflect.Uint64, reflect.Uintptr:
		v.SetUint(uint64(n%100 + 1))
	case reflect.Float32, reflect.Float64:
		v.SetFloat(float64(n%100) + 0.5)
	case reflect.Complex64, reflect.Complex128:
		v.SetComplex(complex(float64(n%100)+0.5, 1))
	case reflect.String:
		v.SetString(fmt.Sprintf("r%d", n))
	case reflect.Interface:
		if t.NumMethod() == 0 {
			v.Set(reflect.ValueOf(fmt.Sprintf("i%d", n)))
		}
	default:
		p := Pool(t, sc)
		if len(p) > 0 {
			// prefer a non-zero value
			g := p[n%len(p)]
			x := g()
			for k := 0; x.IsZero() && k < len(p); k++ {
				x = p[(n+k)%len(p)]()
			}
			v.Set(x)
		}
	}
	return v
}

// ---------------------------------------------------------------- C17

// one piece per encoding class: 1-4 byte runes, a stray byte, the replacement character
// itself (a valid rune), a truncated sequence, an encoded surrogate, NUL
var runeAlphabet = []string{"a", "é", "€", "😀", "\xff", "\uFFFD", "\xe2\x82", "\xed\xa0\x80", "\x00"}

func allStrings(maxLen int) []string {
	out := []string{""}
	prev := []string{""}
	for l := 1; l <= maxLen; l++ {
		var next []string
		for _, p := range prev {
			for _, r := range runeAlphabet {
				next = append(next, p+r)
			}
		}
		out = append(out, next...)
		prev = next
	}
	return out
}

func propC17(h *H) {
	kind := h.C.Tags["kind"]
	switch kind {
	case "fmap-slice":
		c17FmapSlice(h)
	case "fmap-string":
		c17FmapString(h)
	case "join-slice":
		c17JoinSlice(h)
	case "join-string":
		c17JoinString(h)
	default:
		panic("C17: unknown case kind " + kind)
	}
}

func c17FmapSlice(h *H) {
	f := h.F("fmap")
	ft := f.Type().In(0) // func(A) B
	lt := f.Type().In(1)
	A, B := ft.In(0), ft.Out(0)
	pool := elemPool(A, h.Sc, 4)
	k := len(pool)
	h.St.Pool = k
	// for f : A -> A the next pool value is returned (not the identity: writing the
	// results into the input's own array must show)
	poolCanon := make([]string, k)
	for j, g := range pool {
		poolCanon[j] = Canon(g())
	}
	succ := func(c string) (reflect.Value, string) {
		for j := range poolCanon {
			if poolCanon[j] == c {
				n := (j + 1) % k
				return pool[n](), poolCanon[n]
			}
		}
		return reflect.Value{}, ""
	}
	for li, idx := range append([][]int{nil}, allLists(k, envInt("VERIF_LISTLEN", 3))...) {
		in := mkList(lt, pool, idx, li == 0)
		before := Canon(in)
		var log []string
		fn := reflect.MakeFunc(ft, func(args []reflect.Value) []reflect.Value {
			c := Canon(args[0])
			log = append(log, c)
			if B == A {
				if v, _ := succ(c); v.IsValid() {
					return []reflect.Value{v}
				}
				return []reflect.Value{args[0]}
			}
			return []reflect.Value{sentinelFor(B, fmt.Sprintf("%d|%s", len(log), c), h.Sc)}
		})
		h.St.States++
		res, pan := Call(f, fn, in)
		h.St.Evals++
		if pan != "" {
			h.Violation("fmap-slice-panics", typeShapeKey(A), pan, mkList(lt, pool, idx, li == 0))
			continue
		}
		out := res[0]
		want := canonList(mkList(lt, pool, idx, false))
		bad := ""
		if out.Len() != len(idx) {
			bad = fmt.Sprintf("output has length %d, input %d", out.Len(), len(idx))
		} else if !eqStrs(log, want) {
			bad = fmt.Sprintf("f was called %d times / out of order (log %v)", len(log), log)
		} else {
			for i := range idx {
				var exp string
				if B == A {
					exp = want[i]
					if _, sc := succ(want[i]); sc != "" {
						exp = sc
					}
				} else {
					exp = Canon(sentinelFor(B, fmt.Sprintf("%d|%s", i+1, want[i]), h.Sc))
				}
				if Canon(out.Index(i)) != exp {
					bad = fmt.Sprintf("element %d of the output is not f(input[%d])", i, i)
					break
				}
			}
		}
		if bad == "" && Canon(in) != before {
			bad = "input modified"
		}
		if bad != "" {
			h.Violation("fmap-slice-wrong", typeShapeKey(A)+"->"+typeShapeKey(B), bad+"; output "+Show(out), mkList(lt, pool, idx, li == 0))
		}
		if len(idx) >= 2 {
			h.St.Nontriv++
		}
	}
	h.Outcome("fmap-slice")
}

func c17FmapString(h *H) {
	f := h.F("fmap")
	ft := f.Type().In(0) // func(rune) B
	B := ft.Out(0)
	strs := allStrings(envInt("VERIF_STRLEN", 4))
	h.St.Pool = len(strs)
	// for a rune-valued f the results are arbitrary int32 values: negative ones,
	// surrogates and values beyond MaxRune too (they are numbers, not text)
	sentinel := func(seed string) reflect.Value {
		if B.Kind() != reflect.Int32 {
			return sentinelFor(B, seed, h.Sc)
		}
		hh := fnv.New32a()
		hh.Write([]byte(seed))
		menu := []int64{-1, -48, 0xD800, 0xDFFF, 0x110000, 1179648, 'A', 0x65E5, 0, 0xFFFD}
		v := reflect.New(B).Elem()
		v.SetInt(menu[int(hh.Sum32())%len(menu)])
		return v
	}
	for _, s := range strs {
		var log []rune
		fn := reflect.MakeFunc(ft, func(args []reflect.Value) []reflect.Value {
			r := rune(args[0].Int())
			log = append(log, r)
			return []reflect.Value{sentinel(fmt.Sprintf("%d|%d", len(log), r))}
		})
		h.St.States++
		res, pan := Call(f, fn, reflect.ValueOf(s).Convert(f.Type().In(1)))
		h.St.Evals++
		want := []rune(s)
		class := stringClass(s)
		if pan != "" {
			h.Violation("fmap-string-panics", class, pan, reflect.ValueOf(s))
			continue
		}
		out := res[0]
		bad := ""
		if out.Len() != len(want) {
			bad = fmt.Sprintf("output has length %d, the string has %d runes", out.Len(), len(want))
		} else if string(log) != string(want) || len(log) != len(want) {
			bad = fmt.Sprintf("f saw %q, the runes are %q", log, want)
		} else {
			for i, r := range want {
				if Canon(out.Index(i)) != Canon(sentinel(fmt.Sprintf("%d|%d", i+1, r))) {
					bad = fmt.Sprintf("element %d of the output is not f(rune %d)", i, i)
					break
				}
			}
		}
		if bad != "" {
			h.Violation("fmap-string-wrong", class, bad+"; output "+Show(out), reflect.ValueOf(s))
		}
		if len(s) != len(want) {
			h.St.Nontriv++ // contains a multi-byte rune
		}
		h.Outcome(class)
		if h.St.Sample == "" && len(want) == 3 && class == "ascii+invalid" {
			h.St.Sample = fmt.Sprintf("Fmap(f, %q) -> %d elements", s, out.Len())
		}
	}
}

// stringClass names which rune classes a string contains.
func stringClass(s string) string {
	multi, invalid, ascii := false, false, false
	for i := 0; i < len(s); {
		r, n := utf8.DecodeRuneInString(s[i:])
		switch {
		case r == utf8.RuneError && n == 1:
			invalid = true
		case n > 1:
			multi = true
		default:
			ascii = true
		}
		i += n
	}
	var parts []string
	if ascii {
		parts = append(parts, "ascii")
	}
	if multi {
		parts = append(parts, "multibyte")
	}
	if invalid {
		parts = append(parts, "invalid")
	}
	if len(parts) == 0 {
		return "empty"
	}
	return strings.Join(parts, "+")
}

func c17JoinSlice(h *H) {
	f := h.F("join")
	ot := f.Type().In(0) // [][]A
	it := ot.Elem()
	A := it.Elem()
	pool := elemPool(A, h.Sc, 3)
	if len(pool) < 2 {
		pool = append(pool, pool[0])
	}
	h.St.Pool = len(pool)
	// inner list shapes; 4 and 5 are windows of one shared backing array
	const shapes = 6
	build := func(idx []int, nilOuter bool) (outer reflect.Value, backing reflect.Value) {
		if nilOuter {
			return reflect.Zero(ot), reflect.Value{}
		}
		outer = reflect.MakeSlice(ot, len(idx), len(idx))
		backing = reflect.MakeSlice(it, 3, 3)
		for i := 0; i < 3; i++ {
			backing.Index(i).Set(pool[i%len(pool)]())
		}
		for i, s := range idx {
			var in reflect.Value
			switch s {
			case 0:
				in = reflect.Zero(it)
			case 1:
				in = reflect.MakeSlice(it, 0, 0)
			case 2:
				in = reflect.MakeSlice(it, 1, 1)
				in.Index(0).Set(pool[0]())
			case 3:
				in = reflect.MakeSlice(it, 2, 2)
				in.Index(0).Set(pool[1]())
				in.Index(1).Set(pool[0]())
			case 4:
				in = backing.Slice(0, 1) // spare capacity 2, shared with shape 5
			case 5:
				in = backing.Slice(1, 3)
			}
			outer.Index(i).Set(in)
		}
		return outer, backing
	}
	for li, idx := range append([][]int{nil}, allLists(shapes, envInt("VERIF_LISTLEN", 3))...) {
		outer, backing := build(idx, li == 0)
		before := Canon(outer)
		var bb string
		if backing.IsValid() {
			bb = Canon(backing)
		}
		var want []string
		for i := 0; i < outer.Len(); i++ {
			want = append(want, canonList(outer.Index(i))...)
		}
		h.St.States++
		res, pan := Call(f, outer)
		h.St.Evals++
		if pan != "" {
			h.Violation("join-slice-panics", typeShapeKey(A), pan, outer)
			continue
		}
		out := res[0]
		bad := ""
		if !eqStrs(canonList(out), want) {
			bad = "output is not the concatenation"
		} else if li == 0 && !out.IsNil() {
			bad = "Join(nil) is not nil"
		} else if Canon(outer) != before {
			bad = "an input list was modified"
		} else if backing.IsValid() && Canon(backing) != bb {
			uses := false
			for _, s := range idx {
				if s == 4 || s == 5 {
					uses = true
				}
			}
			if uses {
				bad = "the backing array shared by two input windows was modified"
			}
		}
		if bad != "" {
			fresh, _ := build(idx, li == 0)
			h.Violation("join-slice-wrong", typeShapeKey(A), bad+"; output "+Show(out), fresh)
		}
		if len(want) >= 2 {
			h.St.Nontriv++
		}
	}
	h.Outcome("join-slice")
}

func c17JoinString(h *H) {
	f := h.F("join")
	lt := f.Type().In(0)
	pieces := []string{"", "a", "é€", "\xff", "b😀"}
	for li, idx := range append([][]int{nil}, allLists(len(pieces), envInt("VERIF_LISTLEN", 3))...) {
		var in reflect.Value
		want := ""
		if li == 0 {
			in = reflect.Zero(lt)
		} else {
			in = reflect.MakeSlice(lt, len(idx), len(idx))
			for i, j := range idx {
				in.Index(i).SetString(pieces[j])
				want += pieces[j]
			}
		}
		before := Canon(in)
		h.St.States++
		res, pan := Call(f, in)
		h.St.Evals++
		if pan != "" {
			h.Violation("join-string-panics", "", pan, in)
			continue
		}
		if res[0].String() != want {
			h.Violation("join-string-wrong", "", fmt.Sprintf("got %q want %q", res[0].String(), want), in)
		} else if Canon(in) != before {
			h.Violation("join-string-wrong", "input-modified", "input modified", in)
		}
		if len(idx) >= 2 {
			h.St.Nontriv++
		}
	}
	h.St.Pool = len(pieces)
	h.Outcome("join-string")
}

// ---------------------------------------------------------------- C18

func propC18(h *H) {
	mem := h.F("mem")
	ft := mem.Type().In(0)
	nin, nout := ft.NumIn(), ft.NumOut()
	// argument alphabet: tuples built position-wise from per-type pools
	const nt = 6
	pools := make([][]Gen, nin)
	big := make([]int, nin)
	for i := 0; i < nin; i++ {
		pools[i] = elemPool(ft.In(i), h.Sc, 40)
		for j, g := range pools[i] {
			if len(Canon(g())) > len(Canon(pools[i][big[i]]())) {
				big[i] = j
			}
		}
	}
	// tuple t uses pool value choice[t][i] for position i
	tupleIdx := make([][]int, nt)
	for t := 0; t < nt; t++ {
		tupleIdx[t] = make([]int, nin)
		for i := 0; i < nin; i++ {
			n := len(pools[i])
			switch t {
			case 0:
				tupleIdx[t][i] = 0
			case 1:
				tupleIdx[t][i] = 1 % n
			case 2:
				tupleIdx[t][i] = 0 // Equal to tuple 0 but built afresh (distinct addresses)
			case 3:
				// differs from tuple 1 in the last position only
				tupleIdx[t][i] = 1 % n
				if i == nin-1 {
					tupleIdx[t][i] = 2 % n
				}
			case 4, 5:
				// the largest value of each pool (longest lists, most map entries), built twice
				tupleIdx[t][i] = big[i]
			}
		}
	}
	// floats: make tuple 3 the -0 partner of a +0 in tuple 0 when the first float leaf allows it
	mkTuple := func(t int) []reflect.Value {
		out := make([]reflect.Value, nin)
		for i := 0; i < nin; i++ {
			out[i] = pools[i][tupleIdx[t][i]]()
		}
		return out
	}
	// optional further tuples: +0 / -0 variants, one pair per floating point leaf type
	var zeroTuples [][]Gen
	for _, zp := range signedZeroPairs(ft, h.Sc) {
		zeroTuples = append(zeroTuples, zp[0], zp[1])
	}
	extra := len(zeroTuples)
	// a pair of non-Equal argument tuples that the derived Hash maps to the same bucket
	var collide [][]Gen
	if hf := h.F("hash"); hf.IsValid() && nin > 0 {
		collide = findCollision(hf, ft, h.Sc)
	}
	ntAll := nt + extra + len(collide)
	tuple := func(t int) []reflect.Value {
		if t < nt {
			return mkTuple(t)
		}
		var gs []Gen
		if t-nt < extra {
			gs = zeroTuples[t-nt]
		} else {
			gs = collide[t-nt-extra]
		}
		out := make([]reflect.Value, nin)
		for i := range out {
			out[i] = gs[i]()
		}
		return out
	}
	canonTuple := func(args []reflect.Value) string {
		s := ""
		for _, a := range args {
			s += Canon(a) + "|"
		}
		return s
	}
	// Equal classes of the alphabet
	class := make([]int, ntAll)
	for t := 0; t < ntAll; t++ {
		class[t] = t
		for u := 0; u < t; u++ {
			if canonTuple(tuple(u)) == canonTuple(tuple(t)) {
				class[t] = class[u]
				break
			}
		}
	}
	h.St.Pool = ntAll
	if len(collide) > 0 {
		h.Outcome("hash-colliding-pair-in-alphabet")
	}
	maxLen := envInt("VERIF_HISTLEN", 4)
	// keep the number of histories of one signature below ~400 000: a larger alphabet
	// (several signed-zero and colliding pairs) is explored to a smaller depth
	for total, l := 0, 1; l <= maxLen; l++ {
		pow := 1
		for i := 0; i < l; i++ {
			pow *= ntAll
		}
		total += pow
		if total > 400000 {
			maxLen = l - 1
			h.Outcome(fmt.Sprintf("history-depth-reduced-to-%d", maxLen))
			break
		}
	}
	seqs := allLists(ntAll, maxLen)
	fresult := func(c string) []reflect.Value {
		out := make([]reflect.Value, nout)
		for i := 0; i < nout; i++ {
			out[i] = sentinelFor(ft.Out(i), fmt.Sprintf("%d|%s", i, c), h.Sc)
		}
		return out
	}
	for _, seq := range seqs {
		if len(seq) == 0 {
			continue
		}
		if nin == 0 {
			// only one possible argument tuple: collapse the alphabet
			skip := false
			for _, t := range seq {
				if t != 0 {
					skip = true
				}
			}
			if skip {
				continue
			}
		}
		calls := 0
		fn := reflect.MakeFunc(ft, func(args []reflect.Value) []reflect.Value {
			calls++
			return fresult(canonTuple(args))
		})
		r, pan := Call(mem, fn)
		if pan != "" {
			h.Violation("mem-panics", h.T.String(), pan)
			break
		}
		m := r[0]
		if m.Kind() == reflect.Interface {
			m = m.Elem()
		}
		classes := map[int]bool{}
		h.St.States++
		okSeq := true
		for step, t := range seq {
			args := tuple(t)
			classes[class[t]] = true
			res, pan := Call(m, args...)
			h.St.Evals++
			if pan != "" {
				h.Violation("mem-call-panics", h.T.String(), pan, args...)
				okSeq = false
				break
			}
			want := fresult(canonTuple(tuple(t)))
			for i := 0; i < nout; i++ {
				if Canon(res[i]) != Canon(want[i]) {
					h.Violation("mem-wrong-result", h.T.String(), fmt.Sprintf("call %d of sequence %v (tuple indices): result %d is %s, f gives %s", step, seq, i, Show(res[i]), Show(want[i])), args...)
					okSeq = false
					break
				}
			}
			if calls > len(classes) {
				key := h.T.String()
				involvesZero := false
				for _, u := range seq[:step+1] {
					if u >= nt && u < nt+extra {
						involvesZero = true
					}
				}
				if involvesZero {
					key = "signed-zero"
				}
				h.Violation("mem-evaluates-twice", key, fmt.Sprintf("after call %d of sequence %v (tuple indices) f ran %d times for %d Equal-classes of arguments", step, seq, calls, len(classes)), args...)
				okSeq = false
				break
			}
		}
		if okSeq && len(classes) < len(seq) {
			h.St.Nontriv++ // a repeat that must be served from memory
		}
		if h.St.Sample == "" && len(seq) == 3 {
			h.St.Sample = fmt.Sprintf("%s: call sequence (tuple indices) %v -> f evaluated %d times", h.T, seq, calls)
		}
	}
	// memoised recursion: f, evaluating argument a, calls the memoised function with a
	// different argument b that the derived Hash maps to the same bucket; afterwards
	// neither a nor b may be evaluated again
	if len(collide) == 2 && nout > 0 {
		a := func() []reflect.Value { return tuple(nt + extra) }
		b := func() []reflect.Value { return tuple(nt + extra + 1) }
		ca, cb := canonTuple(a()), canonTuple(b())
		calls := map[string]int{}
		var m reflect.Value
		fn := reflect.MakeFunc(ft, func(args []reflect.Value) []reflect.Value {
			c := canonTuple(args)
			calls[c]++
			if c == ca && calls[c] == 1 {
				Call(m, b()...) // re-enter the memoised function
			}
			return fresult(c)
		})
		r, pan := Call(mem, fn)
		if pan == "" {
			m = r[0]
			if m.Kind() == reflect.Interface {
				m = m.Elem()
			}
			h.St.States++
			for _, args := range [][]reflect.Value{a(), b(), a(), b()} {
				res, pan := Call(m, args...)
				h.St.Evals++
				if pan != "" {
					h.Violation("mem-call-panics", "recursion|"+h.T.String(), pan, args...)
					break
				}
				want := fresult(canonTuple(args))
				for i := 0; i < nout; i++ {
					if Canon(res[i]) != Canon(want[i]) {
						h.Violation("mem-wrong-result", "recursion|"+h.T.String(), "result differs from f's under memoised recursion", args...)
					}
				}
			}
			if calls[ca] > 1 || calls[cb] > 1 {
				h.Violation("mem-evaluates-twice", "recursion-with-colliding-arguments", fmt.Sprintf("f evaluated %d times for a and %d times for b (a's evaluation calls the memoised function with b; derived Hash puts a and b in one bucket)", calls[ca], calls[cb]), append(a(), b()...)...)
			}
			h.St.Nontriv++
			h.Outcome("mem-recursion")
		}
	}
	h.Outcome("mem")
}

// signedZeroPair looks for a float leaf in the first parameter that has one
// and returns two argument tuples that differ only in the sign of that zero.
// signedZeroPairs returns, per floating point leaf type reachable in the
// parameters (float32, float64, complex64, complex128), one pair of argument
// tuples that are structurally equal but differ in the sign of a zero.
func signedZeroPairs(ft reflect.Type, sc Scope) [][2][]Gen {
	nin := ft.NumIn()
	var out [][2][]Gen
	seen := map[string]bool{}
	for i := 0; i < nin; i++ {
		if !containsFloat(ft.In(i), map[reflect.Type]bool{}) {
			continue
		}
		sc2 := sc
		sc2.Vmax = 300
		p := Pool(ft.In(i), sc2)
		canons := make([]string, len(p))
		for a := range p {
			canons[a] = Canon(p[a]())
		}
		for a := 0; a < len(p) && len(out) < 4; a++ {
			for b := a + 1; b < len(p) && len(out) < 4; b++ {
				if canons[a] != canons[b] {
					continue
				}
				rd := reprDiff(p[a](), p[b]())
				if !strings.HasPrefix(rd, "float-zero-sign") || seen[fmt.Sprint(i)+rd] {
					continue
				}
				seen[fmt.Sprint(i)+rd] = true
				g0, g1 := make([]Gen, nin), make([]Gen, nin)
				for j := 0; j < nin; j++ {
					pj := elemPool(ft.In(j), sc, 2)
					g0[j], g1[j] = pj[0], pj[0]
				}
				g0[i], g1[i] = p[a], p[b]
				out = append(out, [2][]Gen{g0, g1})
			}
		}
	}
	return out
}

// zeroValuedMaps returns, for a map type with string or integer keys, the one-
// and two-entry maps over a small key set chosen to collide under a
// 31-multiplier hash, every value being the zero value.
func zeroValuedMaps(t reflect.Type) []Gen {
	if t.Kind() != reflect.Map {
		return nil
	}
	var keys []reflect.Value
	kt := t.Key()
	switch kt.Kind() {
	case reflect.String:
		for _, s := range []string{"Aa", "BB", "a", "b"} {
			keys = append(keys, reflect.ValueOf(s).Convert(kt))
		}
	case reflect.Int, reflect.Int16, reflect.Int32, reflect.Int64:
		for _, n := range []int64{0, 1, 31, 39, 961, 1000} {
			keys = append(keys, reflect.ValueOf(n).Convert(kt))
		}
	default:
		return nil
	}
	mk := func(ks ...reflect.Value) Gen {
		return func() reflect.Value {
			m := reflect.MakeMap(t)
			for _, k := range ks {
				m.SetMapIndex(k, reflect.Zero(t.Elem()))
			}
			return m
		}
	}
	var out []Gen
	for i := range keys {
		out = append(out, mk(keys[i]))
		for j := i + 1; j < len(keys); j++ {
			out = append(out, mk(keys[i], keys[j]))
		}
	}
	return out
}

func containsFloat(t reflect.Type, seen map[reflect.Type]bool) bool {
	for _, k := range []reflect.Kind{reflect.Float64, reflect.Float32, reflect.Complex64, reflect.Complex128} {
		if containsKind(t, k, map[reflect.Type]bool{}) {
			return true
		}
	}
	return false
}

// findCollision searches, by brute force with the derived Hash, two argument
// tuples that are not Equal but hash alike.
func findCollision(hf reflect.Value, ft reflect.Type, sc Scope) [][]Gen {
	nin := ft.NumIn()
	sc.Wide = true
	sc.Vmax = 400
	pools := make([][]Gen, nin)
	per := 400
	if nin == 2 {
		per = 45
	} else if nin >= 3 {
		per = 12
	}
	for i := 0; i < nin; i++ {
		pools[i] = head(Pool(ft.In(i), sc), per)
		// map parameters: maps of the same size over different keys with zero values
		// (a lookup of a missing key answers with the zero value as well)
		pools[i] = append(pools[i], zeroValuedMaps(ft.In(i))...)
	}
	at := hf.Type().In(0)
	mkArg := func(gs []Gen) reflect.Value {
		if nin == 1 {
			return gs[0]()
		}
		sv := reflect.New(at).Elem()
		for i, g := range gs {
			sv.Field(i).Set(g())
		}
		return sv
	}
	type cand struct {
		gs    []Gen
		canon string
	}
	byHash := map[uint64][]cand{}
	kinds := map[string]bool{}
	var found [][]Gen
	idx := make([]int, nin)
	count := 0
	for {
		gs := make([]Gen, nin)
		for i, j := range idx {
			gs[i] = pools[i][j]
		}
		arg := mkArg(gs)
		r, pan := Call(hf, arg)
		if pan == "" {
			hv := r[0].Uint()
			c := Canon(arg)
			for _, o := range byHash[hv] {
				if o.canon != c {
					// one pair per kind of difference (leaf, length, key set, ...), at most three
					kind := Diff(mkArg(o.gs), arg).Kind
					if !kinds[kind] && len(found) < 6 {
						kinds[kind] = true
						found = append(found, o.gs, gs)
					}
					break
				}
			}
			byHash[hv] = append(byHash[hv], cand{gs, c})
		}
		count++
		i := nin - 1
		for i >= 0 {
			idx[i]++
			if idx[i] < len(pools[i]) {
				break
			}
			idx[i] = 0
			i--
		}
		if i < 0 || count > 20000 {
			break
		}
	}
	return found
}
