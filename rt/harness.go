package rt

import (
	"bufio"
	"encoding/json"
	"fmt"
	"os"
	"reflect"
	"runtime/debug"
	"strconv"
	"strings"
)

// Case is one (type, derived functions) unit exported by a scenario package.
type Case struct {
	ID    string
	Type  string                 // the Go type expression as written in the scenario
	Zero  interface{}            // (*T)(nil)
	Funcs map[string]interface{} // role -> function value
	Tags  map[string]string
}

// Record kinds written by the harness, one JSON object per line.
type Viol struct {
	K      string   `json:"k"` // "viol"
	Prop   string   `json:"prop"`
	Case   string   `json:"case"`
	Type   string   `json:"type"`
	Clause string   `json:"clause"`
	Key    string   `json:"key"`
	Detail string   `json:"detail"`
	Inputs []string `json:"inputs"`
	Count  int      `json:"count"` // how many violations share this (case,key)
}

type Stat struct {
	K        string         `json:"k"` // "stat"
	Prop     string         `json:"prop"`
	Case     string         `json:"case"`
	Type     string         `json:"type"`
	Pool     int            `json:"pool"`
	Evals    int            `json:"evals"`    // oracle-checked executions of generated code
	States   int            `json:"states"`   // distinct inputs (values, pairs, lists, histories)
	Nontriv  int            `json:"nontriv"`  // see rule per property
	Outcomes map[string]int `json:"outcomes"` // distribution of observed results
	Sample   string         `json:"sample"`
	Skipped  string         `json:"skipped,omitempty"`
}

type Table struct {
	K    string            `json:"k"` // "table"
	Case string            `json:"case"`
	Vals map[string]string `json:"vals"`
}

// H is the per-case harness context.
type H struct {
	Prop  string
	C     Case
	T     reflect.Type
	Sc    Scope
	out   *json.Encoder
	viols map[string]*Viol
	order []string
	St    Stat
}

func (h *H) F(role string) reflect.Value {
	f, ok := h.C.Funcs[role]
	if !ok {
		return reflect.Value{}
	}
	return reflect.ValueOf(f)
}

// Violation records one violation; details are kept for the first two per key.
func (h *H) Violation(clause, key, detail string, inputs ...reflect.Value) {
	k := clause + "|" + key
	v, ok := h.viols[k]
	if !ok {
		ins := make([]string, len(inputs))
		for i, in := range inputs {
			ins[i] = Show(in)
		}
		v = &Viol{K: "viol", Prop: h.Prop, Case: h.C.ID, Type: h.C.Type, Clause: clause, Key: k, Detail: detail, Inputs: ins}
		h.viols[k] = v
		h.order = append(h.order, k)
	}
	v.Count++
}

func (h *H) Outcome(s string) {
	if h.St.Outcomes == nil {
		h.St.Outcomes = map[string]int{}
	}
	h.St.Outcomes[s]++
}

// Call invokes f and converts a panic into a string.
func Call(f reflect.Value, args ...reflect.Value) (res []reflect.Value, pan string) {
	defer func() {
		if r := recover(); r != nil {
			pan = fmt.Sprint(r)
			st := string(debug.Stack())
			if i := strings.Index(st, "derived.gen.go"); i >= 0 {
				j := strings.IndexByte(st[i:], '\n')
				if j > 0 {
					pan += " @" + st[i:i+j]
				}
			}
		}
	}()
	res = f.Call(args)
	return
}

type propFunc func(h *H)

var props = map[string]propFunc{}

func envInt(name string, def int) int {
	if s := os.Getenv(name); s != "" {
		if n, err := strconv.Atoi(s); err == nil {
			return n
		}
	}
	return def
}

// Main runs property os.Args[1] over all cases and streams records to stdout.
func Main(cases []Case) {
	if len(os.Args) < 2 {
		fmt.Fprintln(os.Stderr, "usage: harness <property> [caseid...]")
		os.Exit(2)
	}
	prop := os.Args[1]
	only := map[string]bool{}
	for _, a := range os.Args[2:] {
		only[a] = true
	}
	pf, ok := props[prop]
	if !ok {
		fmt.Fprintln(os.Stderr, "unknown property", prop)
		os.Exit(2)
	}
	sc := Scope{Vmax: envInt("VERIF_VMAX", 24), ElemK: envInt("VERIF_ELEMK", 3), Fuel: envInt("VERIF_FUEL", 4), Text: prop == "C06"}
	w := bufio.NewWriterSize(os.Stdout, 1<<16)
	defer w.Flush()
	enc := json.NewEncoder(w)
	for _, c := range cases {
		if len(only) > 0 && !only[c.ID] {
			continue
		}
		h := &H{Prop: prop, C: c, Sc: sc, out: enc, viols: map[string]*Viol{}}
		h.T = reflect.TypeOf(c.Zero).Elem()
		h.St = Stat{K: "stat", Prop: prop, Case: c.ID, Type: c.Type}
		func() {
			defer func() {
				if r := recover(); r != nil {
					// a panic here is a harness problem, never a violation
					enc.Encode(map[string]string{"k": "harness-error", "case": c.ID, "type": c.Type, "err": fmt.Sprint(r), "stack": string(debug.Stack())})
				}
			}()
			pf(h)
		}()
		for _, k := range h.order {
			enc.Encode(h.viols[k])
		}
		enc.Encode(h.St)
	}
}

func boolStr(b bool) string {
	if b {
		return "true"
	}
	return "false"
}
