package rt

import (
	"fmt"
	"reflect"
	"sort"
	"strings"
)

func init() {
	props["C13"] = bothCapacities(propC13)
	props["C14"] = bothCapacities(propC14)
}

// elemPool picks k diverse element values.
func elemPool(t reflect.Type, sc Scope, k int) []Gen {
	sc.Vmax = 64
	p := Pool(t, sc)
	// keep distinct canonical values, in pool order
	seen := map[string]bool{}
	var out []Gen
	for _, g := range p {
		c := Canon(g())
		if seen[c] {
			continue
		}
		seen[c] = true
		out = append(out, g)
		if len(out) == k {
			break
		}
	}
	// a type that holds a map: make sure one value has a map with several entries
	// (hashing walks the keys in an order of its own)
	if len(out) == k && containsKind(t, reflect.Map, map[reflect.Type]bool{}) {
		have := false
		for _, g := range out {
			have = have || hasMultiEntryMap(Addressable(g()), 0)
		}
		if !have {
			for _, g := range p {
				if hasMultiEntryMap(Addressable(g()), 0) {
					out[k-1] = g
					break
				}
			}
		}
	}
	return out
}

// hasMultiEntryMap reports whether a map with at least two entries is reachable in v.
func hasMultiEntryMap(v reflect.Value, depth int) bool {
	if depth > 6 {
		return false
	}
	v = access(v)
	switch v.Kind() {
	case reflect.Map:
		if v.Len() >= 2 {
			return true
		}
		for _, k := range v.MapKeys() {
			if hasMultiEntryMap(Addressable(v.MapIndex(k)), depth+1) {
				return true
			}
		}
	case reflect.Ptr, reflect.Interface:
		if !v.IsNil() {
			return hasMultiEntryMap(v.Elem(), depth+1)
		}
	case reflect.Slice, reflect.Array:
		for i := 0; i < v.Len(); i++ {
			if hasMultiEntryMap(v.Index(i), depth+1) {
				return true
			}
		}
	case reflect.Struct:
		for i := 0; i < v.NumField(); i++ {
			if hasMultiEntryMap(v.Field(i), depth+1) {
				return true
			}
		}
	}
	return false
}

// allLists enumerates index lists of length 0..maxLen over k symbols.
func allLists(k, maxLen int) [][]int {
	out := [][]int{{}}
	prev := [][]int{{}}
	for l := 1; l <= maxLen; l++ {
		var next [][]int
		for _, p := range prev {
			for s := 0; s < k; s++ {
				n := append(append([]int(nil), p...), s)
				next = append(next, n)
			}
		}
		out = append(out, next...)
		prev = next
	}
	return out
}

func mkList(st reflect.Type, pool []Gen, idx []int, nilList bool) reflect.Value {
	if nilList {
		return reflect.Zero(st)
	}
	l := reflect.MakeSlice(st, len(idx)+listSpare, len(idx)+listSpare)
	for i, j := range idx {
		l.Index(i).Set(pool[j]())
	}
	// spare capacity holds further elements that are not part of the list
	for i := len(idx); i < l.Len(); i++ {
		l.Index(i).Set(pool[(i+1)%len(pool)]())
	}
	return l.Slice(0, len(idx))
}

// listSpare is the spare capacity of every list mkList builds: the list properties are
// explored twice, over exactly sized lists and over windows of longer backing arrays.
var listSpare int

func bothCapacities(f propFunc) propFunc {
	return func(h *H) {
		for _, sp := range []int{0, 2} {
			listSpare = sp
			f(h)
		}
		listSpare = 0
	}
}

func canonList(l reflect.Value) []string {
	out := make([]string, l.Len())
	for i := range out {
		out[i] = Canon(l.Index(i))
	}
	return out
}

func sortedCopy(ss []string) []string {
	c := append([]string(nil), ss...)
	sort.Strings(c)
	return c
}

func eqStrs(a, b []string) bool {
	if len(a) != len(b) {
		return false
	}
	for i := range a {
		if a[i] != b[i] {
			return false
		}
	}
	return true
}

func isBasicKind(k reflect.Kind) bool {
	switch k {
	case reflect.Ptr, reflect.Slice, reflect.Array, reflect.Map, reflect.Struct, reflect.Interface:
		return false
	}
	return true
}

// ---------------------------------------------------------------- C13

func propC13(h *H) {
	E := h.T
	pool := elemPool(E, h.Sc, 4)
	k := len(pool)
	h.St.Pool = k
	maxLen := envInt("VERIF_LISTLEN", 3)
	lists := allLists(k, maxLen)
	cmp := h.F("compare")
	// order oracle: derived Compare, and the natural order for basic kinds
	precedes := func(a, b reflect.Value) (bool, string) {
		if isBasicKind(E.Kind()) && E.Kind() != reflect.Bool && E.Kind() != reflect.Complex64 && E.Kind() != reflect.Complex128 {
			d := Diff(a, b)
			return d.Count > 0 && d.Sign < 0, "natural <"
		}
		if !cmp.IsValid() {
			return false, "none"
		}
		r, pan := Call(cmp, a, b)
		if pan != "" {
			return false, "compare panicked"
		}
		return r[0].Int() < 0, "derived Compare"
	}
	sliceT := reflect.SliceOf(E)
	if f := h.F("sort"); f.IsValid() {
		sliceT = f.Type().In(0)
		for li, idx := range append([][]int{nil}, lists...) {
			in := mkList(sliceT, pool, idx, li == 0)
			want := sortedCopy(canonList(in))
			h.St.States++
			res, pan := Call(f, in)
			h.St.Evals++
			if pan != "" {
				h.Violation("sort-panics", typeShapeKey(E), pan, mkList(sliceT, pool, idx, li == 0))
				continue
			}
			out := res[0]
			if !eqStrs(sortedCopy(canonList(out)), want) {
				h.Violation("sort-not-permutation", typeShapeKey(E), "output "+Show(out), mkList(sliceT, pool, idx, li == 0))
				continue
			}
			for i := 0; i+1 < out.Len(); i++ {
				if p, by := precedes(out.Index(i+1), out.Index(i)); p {
					h.Violation("sort-not-sorted", typeShapeKey(E), fmt.Sprintf("output %s: element %d precedes element %d under %s", Show(out), i+1, i, by), mkList(sliceT, pool, idx, li == 0))
					break
				}
			}
			if len(idx) >= 2 {
				h.St.Nontriv++
			}
			if h.St.Sample == "" && len(idx) == 3 && idx[0] != idx[1] {
				h.St.Sample = fmt.Sprintf("Sort(%s) = %s", Show(mkList(sliceT, pool, idx, false)), Show(out))
			}
		}
		h.Outcome("sort")
	}
	if f := h.F("keys"); f.IsValid() {
		mt := f.Type().In(0)
		// all subsets of the pool as key sets, plus nil map
		for mask := -1; mask < 1<<uint(k); mask++ {
			var m reflect.Value
			want := []string{}
			if mask < 0 {
				m = reflect.Zero(mt)
			} else {
				m = reflect.MakeMap(mt)
				for j := 0; j < k; j++ {
					if mask&(1<<uint(j)) != 0 {
						key := pool[j]()
						m.SetMapIndex(key, reflect.Zero(mt.Elem()))
					}
				}
				for _, key := range m.MapKeys() {
					want = append(want, Canon(key))
				}
			}
			h.St.States++
			res, pan := Call(f, m)
			h.St.Evals++
			if pan != "" {
				h.Violation("keys-panics", typeShapeKey(E), pan, m)
				continue
			}
			if !eqStrs(sortedCopy(canonList(res[0])), sortedCopy(want)) {
				h.Violation("keys-not-exactly-once", typeShapeKey(E), "output "+Show(res[0]), m)
			}
			h.St.Nontriv++
		}
		h.Outcome("keys")
	}
	minmax := func(role string, wantMin bool, two bool) {
		f := h.F(role)
		if !f.IsValid() {
			return
		}
		worse := func(e, r reflect.Value) (bool, string) { // does e beat r?
			if wantMin {
				return precedes(e, r)
			}
			return precedes(r, e)
		}
		if two {
			for i := 0; i < k; i++ {
				for j := 0; j < k; j++ {
					a, b := pool[i](), pool[j]()
					h.St.States++
					res, pan := Call(f, a, b)
					h.St.Evals++
					if pan != "" {
						h.Violation(role+"-panics", typeShapeKey(E), pan, a, b)
						continue
					}
					rc := Canon(res[0])
					if rc != Canon(a) && rc != Canon(b) {
						h.Violation(role+"-not-an-argument", typeShapeKey(E), "result "+Show(res[0]), a, b)
						continue
					}
					for _, e := range []reflect.Value{a, b} {
						if w, by := worse(e, res[0]); w {
							h.Violation(role+"-not-extremal", typeShapeKey(E), fmt.Sprintf("result %s but %s beats it under %s", Show(res[0]), Show(e), by), a, b)
							break
						}
					}
					h.St.Nontriv++
				}
			}
			h.Outcome(role)
			return
		}
		lt := f.Type().In(0)
		for li, idx := range append([][]int{nil}, lists...) {
			for dj := 0; dj < k; dj++ {
				if len(idx) > 2 && dj > 0 {
					break // the default only matters for the empty list
				}
				in := mkList(lt, pool, idx, li == 0)
				def := pool[dj]()
				h.St.States++
				res, pan := Call(f, in, def)
				h.St.Evals++
				if pan != "" {
					h.Violation(role+"-panics", typeShapeKey(E), pan, mkList(lt, pool, idx, li == 0), def)
					continue
				}
				r := res[0]
				if len(idx) == 0 {
					if Canon(r) != Canon(def) {
						h.Violation(role+"-empty-not-default", typeShapeKey(E), "result "+Show(r), in, def)
					}
					continue
				}
				orig := mkList(lt, pool, idx, false)
				found := false
				for i := 0; i < orig.Len(); i++ {
					if Canon(orig.Index(i)) == Canon(r) {
						found = true
					}
				}
				if !found {
					h.Violation(role+"-not-an-element", typeShapeKey(E), "result "+Show(r), orig, def)
					continue
				}
				for i := 0; i < orig.Len(); i++ {
					if w, by := worse(orig.Index(i), r); w {
						h.Violation(role+"-not-extremal", typeShapeKey(E), fmt.Sprintf("result %s but element %d (%s) beats it under %s", Show(r), i, Show(orig.Index(i)), by), orig, def)
						break
					}
				}
				if len(idx) >= 2 {
					h.St.Nontriv++
				}
			}
		}
		h.Outcome(role)
	}
	minmax("min", true, false)
	minmax("max", false, false)
	minmax("min2", true, true)
	minmax("max2", false, true)
}

// ---------------------------------------------------------------- C14

func propC14(h *H) {
	E := h.T
	pool := elemPool(E, h.Sc, 4)
	k := len(pool)
	h.St.Pool = k
	eqf := h.F("equal")
	equal := func(a, b reflect.Value) bool {
		if eqf.IsValid() {
			if r, pan := Call(eqf, a, b); pan == "" {
				return r[0].Bool()
			}
		}
		return RefEqual(a, b, true)
	}
	// class[i][j]: pool[i] Equal pool[j] (under derived Equal)
	cls := make([][]bool, k)
	for i := range cls {
		cls[i] = make([]bool, k)
		for j := range cls[i] {
			cls[i][j] = equal(pool[i](), pool[j]())
		}
	}
	containsIdx := func(idx []int, j int) bool {
		for _, i := range idx {
			if cls[i][j] {
				return true
			}
		}
		return false
	}
	short := allLists(k, envInt("VERIF_LISTLEN", 3))
	long := allLists(k, envInt("VERIF_ULISTLEN", 5))
	comparable := E.Comparable()
	showIdx := func(t reflect.Type, idx []int) reflect.Value { return mkList(t, pool, idx, false) }
	outIdx := func(out reflect.Value) ([]int, bool) {
		// map output elements back to pool indices by canonical encoding
		res := make([]int, out.Len())
		for i := range res {
			c := Canon(out.Index(i))
			res[i] = -1
			for j := 0; j < k; j++ {
				if Canon(pool[j]()) == c {
					res[i] = j
					break
				}
			}
			if res[i] < 0 {
				return nil, false
			}
		}
		return res, true
	}
	eqIdx := func(a, b []int) bool {
		if len(a) != len(b) {
			return false
		}
		for i := range a {
			if a[i] != b[i] {
				return false
			}
		}
		return true
	}

	if f := h.F("contains"); f.IsValid() {
		lt := f.Type().In(0)
		for li, idx := range append([][]int{nil}, short...) {
			for j := 0; j < k; j++ {
				in := mkList(lt, pool, idx, li == 0)
				item := pool[j]()
				h.St.States++
				res, pan := Call(f, in, item)
				h.St.Evals++
				if pan != "" {
					h.Violation("contains-panics", typeShapeKey(E), pan, in, item)
					continue
				}
				want := containsIdx(idx, j)
				if res[0].Bool() != want {
					h.Violation("contains-wrong", typeShapeKey(E), fmt.Sprintf("Contains=%v, want %v", res[0].Bool(), want), in, item)
				}
				if want {
					h.St.Nontriv++
				}
				h.Outcome("contains=" + boolStr(res[0].Bool()))
			}
		}
	}
	if f := h.F("unique"); f.IsValid() {
		lt := f.Type().In(0)
		for li, idx := range append([][]int{nil}, long...) {
			in := mkList(lt, pool, idx, li == 0)
			h.St.States++
			res, pan := Call(f, in)
			h.St.Evals++
			if pan != "" {
				h.Violation("unique-panics", typeShapeKey(E), pan, showIdx(lt, idx))
				continue
			}
			got, ok := outIdx(res[0])
			if !ok {
				h.Violation("unique-invents-elements", typeShapeKey(E), "output "+Show(res[0]), showIdx(lt, idx))
				continue
			}
			// expected first occurrences
			var firsts []int
			for _, i := range idx {
				if !containsIdx(firsts, i) {
					firsts = append(firsts, i)
				}
			}
			bad := ""
			dupKey := ""
			for a := 0; a < len(got) && bad == ""; a++ {
				for b := a + 1; b < len(got); b++ {
					if cls[got[a]][got[b]] {
						bad = "output contains two Equal elements"
						// how do the two elements that derived Equal calls equal differ?
						d := Diff(pool[got[a]](), pool[got[b]]())
						dupKey = fmt.Sprintf("keeps-two-Equal-elements|%s|%s", d.Kind, d.Type)
						break
					}
				}
			}
			for _, i := range idx {
				if bad == "" && !containsIdx(got, i) {
					bad = "an input element has no Equal representative in the output"
				}
			}
			if bad == "" && len(got) != len(firsts) {
				bad = "wrong number of elements"
			}
			if bad == "" && !comparable && !eqIdx(got, firsts) {
				bad = "first occurrences not kept in order"
			}
			if bad != "" {
				k := uniqueKey(comparable)
				if dupKey != "" {
					k = dupKey
				}
				h.Violation("unique-wrong", k, bad+": output "+Show(res[0]), showIdx(lt, idx))
			}
			if len(firsts) < len(idx) {
				h.St.Nontriv++
			}
			if h.St.Sample == "" && len(idx) == 4 && len(firsts) == 2 {
				h.St.Sample = fmt.Sprintf("Unique(%s) = %s", Show(showIdx(lt, idx)), Show(res[0]))
			}
		}
		h.Outcome("unique")
	}
	keySet := func(m reflect.Value) []string {
		var ks []string
		for _, key := range m.MapKeys() {
			ks = append(ks, Canon(key))
		}
		sort.Strings(ks)
		return ks
	}
	canonSet := func(idx []int) []string {
		seen := map[string]bool{}
		var ks []string
		for _, i := range idx {
			c := Canon(pool[i]())
			if !seen[c] {
				seen[c] = true
				ks = append(ks, c)
			}
		}
		sort.Strings(ks)
		return ks
	}
	if f := h.F("set"); f.IsValid() {
		lt := f.Type().In(0)
		for li, idx := range append([][]int{nil}, short...) {
			in := mkList(lt, pool, idx, li == 0)
			h.St.States++
			res, pan := Call(f, in)
			h.St.Evals++
			if pan != "" {
				h.Violation("set-panics", typeShapeKey(E), pan, in)
				continue
			}
			if !eqStrs(keySet(res[0]), canonSet(idx)) {
				h.Violation("set-wrong", typeShapeKey(E), "output "+Show(res[0]), in)
			}
			h.St.Nontriv++
		}
		h.Outcome("set")
	}
	for _, role := range []string{"union", "intersect"} {
		f := h.F(role)
		if !f.IsValid() {
			continue
		}
		lt := f.Type().In(0)
		for ai, a := range append([][]int{nil}, short...) {
			for bi, b := range append([][]int{nil}, short...) {
				la, lb := mkList(lt, pool, a, ai == 0), mkList(lt, pool, b, bi == 0)
				h.St.States++
				res, pan := Call(f, la, lb)
				h.St.Evals++
				if pan != "" {
					h.Violation(role+"-panics", typeShapeKey(E), pan, showIdx(lt, a), showIdx(lt, b))
					continue
				}
				got, ok := outIdx(res[0])
				if !ok {
					h.Violation(role+"-invents-elements", typeShapeKey(E), "output "+Show(res[0]), showIdx(lt, a), showIdx(lt, b))
					continue
				}
				var want []int
				if role == "union" {
					want = append(want, a...)
					for _, j := range b {
						if !containsIdx(want, j) {
							want = append(want, j)
						}
					}
					okU := len(got) == len(want)
					for i := 0; okU && i < len(got); i++ {
						// same Equal class position by position (the representative may be either list's)
						okU = cls[got[i]][want[i]]
					}
					if !okU {
						h.Violation("union-wrong", typeShapeKey(E), fmt.Sprintf("output %s, want first list then new items of the second", Show(res[0])), showIdx(lt, a), showIdx(lt, b))
					}
				} else {
					// documented precondition: the first list holds unique items
					dup := false
					for x := 0; x < len(a) && !dup; x++ {
						for y := x + 1; y < len(a); y++ {
							if cls[a[x]][a[y]] {
								dup = true
								break
							}
						}
					}
					for _, i := range a {
						if containsIdx(b, i) {
							want = append(want, i)
						}
					}
					okI := true
					if !dup {
						okI = eqIdx(got, want)
					} else {
						// as sets, and as a subsequence of the first list
						for _, i := range want {
							okI = okI && containsIdx(got, i)
						}
						for _, i := range got {
							okI = okI && containsIdx(want, i)
						}
					}
					if !okI {
						h.Violation("intersect-wrong", typeShapeKey(E), fmt.Sprintf("output %s", Show(res[0])), showIdx(lt, a), showIdx(lt, b))
					}
				}
				if len(a) > 0 && len(b) > 0 {
					h.St.Nontriv++
				}
			}
		}
		h.Outcome(role)
	}
	for _, role := range []string{"unionm", "intersectm"} {
		f := h.F(role)
		if !f.IsValid() {
			continue
		}
		mt := f.Type().In(0)
		mk := func(mask int) reflect.Value {
			if mask < 0 {
				if role == "unionm" {
					return reflect.MakeMap(mt) // union writes into its first argument
				}
				return reflect.Zero(mt)
			}
			m := reflect.MakeMap(mt)
			for j := 0; j < k; j++ {
				if mask&(1<<uint(j)) != 0 {
					m.SetMapIndex(pool[j](), reflect.Zero(mt.Elem()))
				}
			}
			return m
		}
		for ma := -1; ma < 1<<uint(k); ma++ {
			for mb := -1; mb < 1<<uint(k); mb++ {
				a, b := mk(ma), mk(mb)
				wantSet := map[string]bool{}
				for _, x := range keySet(a) {
					if role == "unionm" {
						wantSet[x] = true
					} else {
						for _, y := range keySet(b) {
							if x == y {
								wantSet[x] = true
							}
						}
					}
				}
				if role == "unionm" {
					for _, y := range keySet(b) {
						wantSet[y] = true
					}
				}
				var want []string
				for x := range wantSet {
					want = append(want, x)
				}
				sort.Strings(want)
				h.St.States++
				res, pan := Call(f, a, b)
				h.St.Evals++
				if pan != "" {
					h.Violation(role+"-panics", typeShapeKey(E), pan, mk(ma), mk(mb))
					continue
				}
				if !eqStrs(keySet(res[0]), want) {
					h.Violation(role+"-wrong", typeShapeKey(E), "output "+Show(res[0]), mk(ma), mk(mb))
				}
				h.St.Nontriv++
			}
		}
		h.Outcome(role)
	}
	// compositions: Union / Intersect of the sets that Set builds from two lists
	if fs := h.F("set"); fs.IsValid() {
		lt := fs.Type().In(0)
		lists := append([][]int{nil}, short...)
		for _, role := range []string{"unionm", "intersectm"} {
			f := h.F(role)
			if !f.IsValid() {
				continue
			}
			for la, ia := range lists {
				for lb, ib := range lists {
					ra, p1 := Call(fs, mkList(lt, pool, ia, la == 0))
					rb, p2 := Call(fs, mkList(lt, pool, ib, lb == 0))
					if p1 != "" || p2 != "" {
						continue // reported above
					}
					wantSet := map[string]bool{}
					ca, cb := canonSet(ia), canonSet(ib)
					for _, x := range ca {
						if role == "unionm" {
							wantSet[x] = true
						} else {
							for _, y := range cb {
								if x == y {
									wantSet[x] = true
								}
							}
						}
					}
					if role == "unionm" {
						for _, y := range cb {
							wantSet[y] = true
						}
					}
					var want []string
					for x := range wantSet {
						want = append(want, x)
					}
					sort.Strings(want)
					h.St.States++
					res, pan := Call(f, ra[0], rb[0])
					h.St.Evals++
					if pan != "" {
						h.Violation(role+"-of-sets-panics", typeShapeKey(E), pan, mkList(lt, pool, ia, la == 0), mkList(lt, pool, ib, lb == 0))
						continue
					}
					if !eqStrs(keySet(res[0]), want) {
						h.Violation(role+"-of-sets-wrong", typeShapeKey(E), "output "+Show(res[0]), mkList(lt, pool, ia, la == 0), mkList(lt, pool, ib, lb == 0))
					}
				}
			}
		}
	}
	// predicate based helpers
	type predSpec struct {
		name string
		fn   func(call int, elemIdx int) bool
	}
	preds := []predSpec{
		{"always", func(int, int) bool { return true }},
		{"never", func(int, int) bool { return false }},
		{"even-call", func(c, _ int) bool { return c%2 == 0 }},
		{"odd-call", func(c, _ int) bool { return c%2 == 1 }},
	}
	for j := 0; j < k; j++ {
		j := j
		preds = append(preds, predSpec{fmt.Sprintf("is-elem-%d", j), func(_, e int) bool { return e == j }})
		preds = append(preds, predSpec{fmt.Sprintf("not-elem-%d", j), func(_, e int) bool { return e != j }})
	}
	for _, role := range []string{"filter", "takewhile", "all", "any"} {
		f := h.F(role)
		if !f.IsValid() {
			continue
		}
		pt := f.Type().In(0)
		lt := f.Type().In(1)
		for li, idx := range append([][]int{nil}, short...) {
			for _, ps := range preds {
				var log []int
				pred := reflect.MakeFunc(pt, func(args []reflect.Value) []reflect.Value {
					c := Canon(args[0])
					e := -1
					for j := 0; j < k; j++ {
						if Canon(pool[j]()) == c {
							e = j
							break
						}
					}
					r := ps.fn(len(log), e)
					log = append(log, e)
					return []reflect.Value{reflect.ValueOf(r)}
				})
				in := mkList(lt, pool, idx, li == 0)
				h.St.States++
				res, pan := Call(f, pred, in)
				h.St.Evals++
				if pan != "" {
					h.Violation(role+"-panics", typeShapeKey(E), pan, showIdx(lt, idx))
					continue
				}
				// reference
				var verdicts []bool
				for c, e := range idx {
					verdicts = append(verdicts, ps.fn(c, e))
				}
				detail := func() string {
					return fmt.Sprintf("predicate %s; output %s; predicate call log (pool indices) %v", ps.name, Show(res[0]), log)
				}
				// the log must be a prefix of the input, in order
				okLog := len(log) <= len(idx)
				for c := 0; okLog && c < len(log); c++ {
					okLog = log[c] == idx[c]
				}
				if !okLog {
					h.Violation(role+"-predicate-calls-out-of-order", typeShapeKey(E), detail(), showIdx(lt, idx))
					continue
				}
				switch role {
				case "filter":
					var want []int
					for c, e := range idx {
						if verdicts[c] {
							want = append(want, e)
						}
					}
					got, ok := outIdx(res[0])
					if !ok || !eqIdx(got, want) || len(log) != len(idx) {
						h.Violation("filter-wrong", typeShapeKey(E), detail(), showIdx(lt, idx))
					}
				case "takewhile":
					var want []int
					for c, e := range idx {
						if !verdicts[c] {
							break
						}
						want = append(want, e)
					}
					got, ok := outIdx(res[0])
					if !ok || !eqIdx(got, want) {
						h.Violation("takewhile-wrong", typeShapeKey(E), detail(), showIdx(lt, idx))
					}
				case "all", "any":
					want := role == "all"
					for c := range idx {
						if role == "all" && !verdicts[c] {
							want = false
						}
						if role == "any" && verdicts[c] {
							want = true
						}
					}
					if res[0].Bool() != want {
						h.Violation(role+"-wrong", typeShapeKey(E), detail(), showIdx(lt, idx))
					}
				}
				if len(idx) >= 2 && strings.Contains(ps.name, "elem") {
					h.St.Nontriv++
				}
			}
		}
		h.Outcome(role)
	}
}

func uniqueKey(comparable bool) string {
	if comparable {
		return "comparable-elements"
	}
	return "non-comparable-elements"
}
