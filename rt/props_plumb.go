package rt

import (
	"fmt"
	"reflect"
	"strings"
)

func init() {
	props["C15"] = propC15
}

// argFor is the sentinel argument for parameter position pos, variant bit.
func argFor(t reflect.Type, pos, bit int, sc Scope) reflect.Value {
	v := reflect.New(t).Elem()
	switch t.Kind() {
	case reflect.Bool:
		v.SetBool(bit == 1)
	case reflect.Int, reflect.Int8, reflect.Int16, reflect.Int32, reflect.Int64:
		v.SetInt(int64(10*pos + bit + 1))
	case reflect.Uint, reflect.Uint8, reflect.Uint16, reflect.Uint32, reflect.Uint64:
		v.SetUint(uint64(10*pos + bit + 1))
	case reflect.Float32, reflect.Float64:
		v.SetFloat(float64(pos) + 0.25 + float64(bit)/2)
	case reflect.String:
		v.SetString(fmt.Sprintf("p%db%d", pos, bit))
	default:
		return sentinelFor(t, fmt.Sprintf("arg%d|%d", pos, bit), sc)
	}
	return v
}

func canons(vs []reflect.Value) []string {
	out := make([]string, len(vs))
	for i, v := range vs {
		out[i] = Canon(v)
	}
	return out
}

func dyn(v reflect.Value) reflect.Value {
	if v.Kind() == reflect.Interface {
		return v.Elem()
	}
	return v
}

func propC15(h *H) {
	plugin := h.C.Tags["plugin"]
	w := h.F("fn")
	key := plugin + "|" + h.C.Tags["naming"]
	sc := h.Sc
	bad := func(clause, detail string, args ...reflect.Value) {
		h.Violation(plugin+"-"+clause, key, h.C.Tags["sig"]+": "+detail, args...)
	}
	// the original function type and its flat parameter list
	var F reflect.Type
	var ptypes []reflect.Type
	var rtypes []reflect.Type
	switch plugin {
	case "tuple":
		for i := 0; i < w.Type().NumIn(); i++ {
			ptypes = append(ptypes, w.Type().In(i))
		}
	case "uncurry":
		F = w.Type().In(0)
		inner := F.Out(0)
		ptypes = append(ptypes, F.In(0))
		for i := 0; i < inner.NumIn(); i++ {
			ptypes = append(ptypes, inner.In(i))
		}
		for i := 0; i < inner.NumOut(); i++ {
			rtypes = append(rtypes, inner.Out(i))
		}
	default:
		F = w.Type().In(0)
		for i := 0; i < F.NumIn(); i++ {
			ptypes = append(ptypes, F.In(i))
		}
		for i := 0; i < F.NumOut(); i++ {
			rtypes = append(rtypes, F.Out(i))
		}
	}
	n := len(ptypes)
	h.St.Pool = 1 << uint(n)
	results := make([]reflect.Value, len(rtypes))
	for i, t := range rtypes {
		results[i] = argFor(t, 7+i, 1, sc)
	}
	for mask := 0; mask < 1<<uint(n); mask++ {
		args := make([]reflect.Value, n)
		for i := range args {
			args[i] = argFor(ptypes[i], i, (mask>>uint(i))&1, sc)
		}
		want := canons(args)
		var log [][]string
		outerCalls := 0
		var f reflect.Value
		switch plugin {
		case "tuple":
		case "uncurry":
			inner := F.Out(0)
			f = reflect.MakeFunc(F, func(a []reflect.Value) []reflect.Value {
				outerCalls++
				first := Canon(a[0])
				return []reflect.Value{reflect.MakeFunc(inner, func(b []reflect.Value) []reflect.Value {
					log = append(log, append([]string{first}, canons(b)...))
					return results
				})}
			})
		default:
			f = reflect.MakeFunc(F, func(a []reflect.Value) []reflect.Value {
				log = append(log, canons(a))
				return results
			})
		}
		h.St.States++
		h.St.Evals++
		var got []reflect.Value
		var pan string
		func() {
			var r []reflect.Value
			switch plugin {
			case "curry":
				if r, pan = Call(w, f); pan != "" {
					return
				}
				g := dyn(r[0])
				if r, pan = Call(g, args[0]); pan != "" {
					return
				}
				// a second partial application of the same curried value, with the other
				// sentinel, must not disturb the first one
				if _, pan = Call(g, argFor(ptypes[0], 0, 1-(mask&1), sc)); pan != "" {
					return
				}
				got, pan = Call(dyn(r[0]), args[1:]...)
			case "uncurry", "uncurrycurry":
				if r, pan = Call(w, f); pan != "" {
					return
				}
				got, pan = Call(dyn(r[0]), args...)
			case "flip":
				if r, pan = Call(w, f); pan != "" {
					return
				}
				sw := append([]reflect.Value{args[1], args[0]}, args[2:]...)
				got, pan = Call(dyn(r[0]), sw...)
			case "apply":
				if r, pan = Call(w, f, args[n-1]); pan != "" {
					return
				}
				// a second application with the other sentinel must not disturb the first one
				if _, pan = Call(w, f, argFor(ptypes[n-1], n-1, 1-((mask>>uint(n-1))&1), sc)); pan != "" {
					return
				}
				got, pan = Call(dyn(r[0]), args[:n-1]...)
			case "tuple":
				if r, pan = Call(w, args...); pan != "" {
					return
				}
				got, pan = Call(dyn(r[0]))
			}
		}()
		if pan != "" {
			bad("panics", pan, args...)
			continue
		}
		if plugin == "tuple" {
			if !eqStrs(canons(got), want) {
				bad("wrong-values", fmt.Sprintf("tuple yields %v", showAll(got)), args...)
			}
			h.St.Nontriv++
			continue
		}
		if len(log) != 1 {
			bad("call-count", fmt.Sprintf("f was called %d times", len(log)), args...)
			continue
		}
		if plugin == "uncurry" && outerCalls != 1 {
			bad("call-count", fmt.Sprintf("outer function was called %d times", outerCalls), args...)
			continue
		}
		if !eqStrs(log[0], want) {
			bad("argument-positions", fmt.Sprintf("f received %s", strings.Join(log[0], " ")), args...)
			continue
		}
		if !eqStrs(canons(got), canons(results)) {
			bad("results-changed", fmt.Sprintf("wrapper returned %v, f returned %v", showAll(got), showAll(results)), args...)
			continue
		}
		h.St.Nontriv++
		if h.St.Sample == "" && mask == 1 {
			h.St.Sample = fmt.Sprintf("%s %s: args %v -> f called once with them in position", plugin, h.C.Tags["sig"], showAll(args))
		}
	}
	h.Outcome(plugin)
}

func showAll(vs []reflect.Value) []string {
	out := make([]string, len(vs))
	for i, v := range vs {
		out[i] = Show(v)
	}
	return out
}
