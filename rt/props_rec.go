package rt

import (
	"fmt"
	"math"
	"reflect"
	"sort"
)

func init() {
	props["C02"] = propC02
	props["C03"] = propC03
	props["C04"] = propC04
	props["C05"] = propC05
}

// ---------------------------------------------------------------- C02

func propC02(h *H) {
	eq := h.F("equal")
	eqc := h.F("equalc")
	gens := Pool(h.T, h.Sc)
	n := len(gens)
	h.St.Pool = n
	um := HasUserMethod(h.T, "Equal", reflect.Bool)
	rt0 := h.T
	if rt0.Kind() == reflect.Ptr {
		rt0 = rt0.Elem()
	}
	_, rootUser, _ := userMethod(rt0, "Equal", reflect.Bool)
	classes := map[string]bool{}
	for i := 0; i < n; i++ {
		for j := 0; j < n; j++ {
			x, y := gens[i](), gens[j]()
			if j == 0 {
				classes[Canon(x)] = true
			}
			ref := RefEqual(x, y, true)
			refS := ref
			if um {
				refS = RefEqual(x, y, false)
			}
			de := reflect.DeepEqual(x.Interface(), y.Interface())
			if de != refS {
				panic(fmt.Sprintf("reference models disagree on %s vs %s: DeepEqual=%v RefEqual=%v", Show(x), Show(y), de, refS))
			}
			h.St.States++
			// judge compares a derived answer with the reference
			judge := func(clause string, got bool) {
				if got == ref {
					return
				}
				if rootUser && (got == refS || got == RefEqualRootMethod(x, y)) {
					// the statement fixes the answer at named *components*; whether the
					// root argument's own method is consulted is left open
					h.Outcome("root-method-left-open")
					return
				}
				d := Diff(x, y)
				key := fmt.Sprintf("derived=%v|%s|%s|%s", got, d.Kind, d.Type, d.Ctx)
				if ref != refS {
					key = fmt.Sprintf("derived=%v|user-method-not-consulted|inside=%s", got, d.MethodParent("Equal", reflect.Bool))
				}
				h.Violation(clause, key, fmt.Sprintf("derived Equal=%v reference=%v (purely structural: %v) first difference at %q (%s)", got, ref, refS, d.Path, d.Kind), x, y)
			}
			var got bool
			if eq.IsValid() {
				res, pan := Call(eq, x, y)
				h.St.Evals++
				if pan != "" {
					h.Violation("equal-panics", panKey(x, y), pan, x, y)
					continue
				}
				got = res[0].Bool()
				h.Outcome(boolStr(got))
				judge("equal-vs-ref", got)
			}
			if eqc.IsValid() {
				res, pan := Call(eqc, x)
				var r2 []reflect.Value
				if pan == "" {
					r2, pan = Call(res[0], y)
				}
				h.St.Evals++
				if pan != "" {
					h.Violation("curried-equal-panics", panKey(x, y), pan, x, y)
					continue
				}
				gc := r2[0].Bool()
				if !eq.IsValid() {
					judge("curried-equal-vs-ref", gc)
				} else if gc != got {
					d := Diff(x, y)
					h.Violation("curried-vs-binary", fmt.Sprintf("%s|%s|%s", d.Kind, d.Type, d.Ctx), fmt.Sprintf("curried=%v binary=%v", gc, got), x, y)
				}
			}
			if i != j && ref {
				h.St.Nontriv++ // equal although built separately from different generators
			}
			if h.St.Sample == "" && i == n/2 && j == n-1 {
				h.St.Sample = fmt.Sprintf("Equal(%s, %s) = %v", Show(x), Show(y), got)
			}
		}
	}
	h.St.Nontriv += len(classes)
	if eq.IsValid() && eqc.IsValid() {
		lateBinding(h, gens, eq, eqc, "curried-late-binding")
	}
	// values that share memory: a value and a shorter window of the same backing
	// array, a value and itself
	if eq.IsValid() {
		for i := 0; i < n; i++ {
			x := gens[i]()
			for _, y := range AliasVariants(x) {
				for _, pr := range [][2]reflect.Value{{x, y}, {y, x}} {
					ref := RefEqual(pr[0], pr[1], true)
					if ref != RefEqual(pr[0], pr[1], false) {
						continue // method-sensitive pairs are judged in the main loop
					}
					h.St.States++
					res, pan := Call(eq, pr[0], pr[1])
					h.St.Evals++
					if pan != "" {
						h.Violation("equal-panics", "aliased|"+panKey(pr[0], pr[1]), pan, pr[0], pr[1])
						continue
					}
					if res[0].Bool() != ref {
						d := Diff(pr[0], pr[1])
						h.Violation("equal-vs-ref", fmt.Sprintf("aliased-memory|derived=%v|%s|%s|%s", res[0].Bool(), d.Kind, d.Type, d.Ctx),
							fmt.Sprintf("the two arguments share memory (same backing array / same addresses): derived Equal=%v reference=%v, first difference at %q (%s)", res[0].Bool(), ref, d.Path, d.Kind), pr[0], pr[1])
					}
				}
			}
		}
	}
}

func panKey(x, y reflect.Value) string {
	d := Diff(x, y)
	return fmt.Sprintf("%s|%s|%s", d.Kind, d.Type, d.Ctx)
}

// ---------------------------------------------------------------- C03

func propC03(h *H) {
	cmp := h.F("compare")
	cmpc := h.F("comparec")
	eq := h.F("equal")
	gens := Pool(h.T, h.Sc)
	n := len(gens)
	h.St.Pool = n
	um := HasUserMethod(h.T, "Equal", reflect.Bool) || HasUserMethod(h.T, "Compare", reflect.Int)
	rt0 := h.T
	if rt0.Kind() == reflect.Ptr {
		rt0 = rt0.Elem()
	}
	_, rootUser, _ := userMethod(rt0, "Equal", reflect.Bool)
	M := make([][]int, n)
	ok := make([][]bool, n)
	for i := 0; i < n; i++ {
		M[i] = make([]int, n)
		ok[i] = make([]bool, n)
		for j := 0; j < n; j++ {
			x, y := gens[i](), gens[j]()
			h.St.States++
			res, pan := Call(cmp, x, y)
			h.St.Evals++
			if pan != "" {
				h.Violation("compare-panics", panKey(x, y), pan, x, y)
				continue
			}
			c := int(res[0].Int())
			M[i][j], ok[i][j] = c, true
			h.Outcome(fmt.Sprint(c))
			if c < -1 || c > 1 {
				h.Violation("range", "", fmt.Sprintf("Compare returned %d", c), x, y)
			}
			d := Diff(x, y)
			refS := RefEqual(x, y, false)
			sensitive := false
			if um {
				sensitive = refS != RefEqual(x, y, true) || refS != RefEqualRootMethod(x, y)
			}
			// zero <=> derived Equal (the structural reference only stands in when
			// no Equal was generated)
			eqv, haveEq := refS, false
			if eq.IsValid() {
				r, pan := Call(eq, gens[i](), gens[j]())
				if pan == "" {
					eqv, haveEq = r[0].Bool(), true
				}
			}
			if (c == 0) != eqv {
				switch {
				case rootUser && refS != RefEqualRootMethod(x, y):
					// whether the root argument's own methods are consulted is left open
					h.Outcome("root-method-left-open")
				case sensitive:
					par := d.MethodParent("Equal", reflect.Bool)
					if par == "" {
						par = d.MethodParent("Compare", reflect.Int)
					}
					h.Violation("zero-iff-equal", fmt.Sprintf("cmp=%s|equal=%v|user-method|inside=%s", zs(c), eqv, par),
						fmt.Sprintf("Compare=%d but derived Equal=%v (derived Equal available: %v); first difference at %q", c, eqv, haveEq, d.Path), x, y)
				default:
					h.Violation("zero-iff-equal", fmt.Sprintf("cmp=%s|equal=%v|%s|%s|%s", zs(c), eqv, d.Kind, d.Type, d.Ctx),
						fmt.Sprintf("Compare=%d but derived Equal=%v (derived Equal available: %v); first difference at %q", c, eqv, haveEq, d.Path), x, y)
				}
			}
			// natural order at a single differing position, for values that Equal distinguishes
			if d.Count == 1 && d.Sign != 0 && !refS && !eqv && !um && (d.Kind != "len" && d.Kind != "keyset") {
				h.St.Nontriv++
				if c != d.Sign {
					h.Violation("natural-order", fmt.Sprintf("%s|%s|%s|got=%d|want=%d", d.Kind, d.Type, d.Ctx, c, d.Sign),
						fmt.Sprintf("values differ only at %q (%s); natural order gives %d, Compare=%d", d.Path, d.Kind, d.Sign, c), x, y)
				}
			}
			if cmpc.IsValid() {
				res, pan := Call(cmpc, gens[i]())
				var r2 []reflect.Value
				if pan == "" {
					r2, pan = Call(res[0], gens[j]())
				}
				h.St.Evals++
				if pan != "" {
					h.Violation("curried-compare-panics", panKey(x, y), pan, x, y)
				} else if int(r2[0].Int()) != c {
					h.Violation("curried-vs-binary", fmt.Sprintf("%s|%s|%s", d.Kind, d.Type, d.Ctx), fmt.Sprintf("curried=%d binary=%d", r2[0].Int(), c), x, y)
				}
			}
			if h.St.Sample == "" && i == n/2 && j == n-1 {
				h.St.Sample = fmt.Sprintf("Compare(%s, %s) = %d", Show(x), Show(y), c)
			}
		}
	}
	if cmpc.IsValid() {
		lateBinding(h, gens, cmp, cmpc, "curried-late-binding")
	}
	// values that share memory: a value and a shorter window of the same backing
	// array, a value and itself (the answer may not depend on addresses)
	for i := 0; i < n; i++ {
		x := gens[i]()
		for _, y := range AliasVariants(x) {
			ref := RefEqual(x, y, true)
			if ref != RefEqual(x, y, false) || ref != RefEqualRootMethod(x, y) {
				continue // method-sensitive pairs are judged in the main loop
			}
			h.St.States++
			r1, p1 := Call(cmp, x, y)
			r2, p2 := Call(cmp, y, x)
			h.St.Evals += 2
			if p1 != "" || p2 != "" {
				h.Violation("compare-panics", "aliased|"+panKey(x, y), p1+p2, x, y)
				continue
			}
			c1, c2 := int(r1[0].Int()), int(r2[0].Int())
			d := Diff(x, y)
			eqv := ref
			if eq.IsValid() {
				if r, pan := Call(eq, x, y); pan == "" {
					eqv = r[0].Bool()
				}
			}
			switch {
			case c1 != -c2:
				h.Violation("antisymmetry", fmt.Sprintf("aliased-memory|%s|%s|%s", d.Kind, d.Type, d.Ctx), fmt.Sprintf("the two arguments share memory: cmp(x,y)=%d cmp(y,x)=%d", c1, c2), x, y)
			case (c1 == 0) != eqv:
				h.Violation("zero-iff-equal", fmt.Sprintf("aliased-memory|cmp=%s|equal=%v|%s|%s|%s", zs(c1), eqv, d.Kind, d.Type, d.Ctx), fmt.Sprintf("the two arguments share memory (same backing array / same addresses): Compare=%d but derived Equal=%v; first difference at %q", c1, eqv, d.Path), x, y)
			case (c1 == 0) != ref && !um:
				h.Violation("zero-iff-equal", fmt.Sprintf("aliased-memory|cmp=%s|reference=%v|%s|%s|%s", zs(c1), ref, d.Kind, d.Type, d.Ctx), fmt.Sprintf("the two arguments share memory: Compare=%d but the values are structurally equal: %v", c1, ref), x, y)
			}
		}
	}
	// antisymmetry on all pairs
	for i := 0; i < n; i++ {
		for j := i; j < n; j++ {
			if ok[i][j] && ok[j][i] && M[i][j] != -M[j][i] {
				x, y := gens[i](), gens[j]()
				d := Diff(x, y)
				h.Violation("antisymmetry", fmt.Sprintf("%s|%s|%s", d.Kind, d.Type, d.Ctx), fmt.Sprintf("cmp(x,y)=%d cmp(y,x)=%d", M[i][j], M[j][i]), x, y)
			}
		}
	}
	// transitivity on all triples
	for i := 0; i < n; i++ {
		for j := 0; j < n; j++ {
			if !ok[i][j] || M[i][j] > 0 {
				continue
			}
			for k := 0; k < n; k++ {
				if !ok[j][k] || !ok[i][k] || M[j][k] > 0 {
					continue
				}
				h.St.States++
				want := 0
				if M[i][j] < 0 || M[j][k] < 0 {
					want = -1
				}
				if M[i][k] != want {
					x, y, z := gens[i](), gens[j](), gens[k]()
					h.Violation("transitivity", typeShapeKey(h.T), fmt.Sprintf("cmp(x,y)=%d cmp(y,z)=%d but cmp(x,z)=%d", M[i][j], M[j][k], M[i][k]), x, y, z)
				}
			}
		}
	}
}

// underUserMethod reports whether the first differing position of x and y lies
// inside a component decided by a user Equal/Compare method.
func underUserMethod(t reflect.Type, x, y reflect.Value) bool {
	// conservative: if structural difference exists but method-aware equality
	// holds, or the type has user methods at all below the root, skip.
	return HasUserMethod(t, "Compare", reflect.Int) || HasUserMethod(t, "Equal", reflect.Bool)
}

func zs(c int) string {
	if c == 0 {
		return "zero"
	}
	return "nonzero"
}

func typeShapeKey(t reflect.Type) string { return t.String() }

// ---------------------------------------------------------------- C04

// reprDiff classifies how two structurally equal values differ in
// representation.
func reprDiff(x, y reflect.Value) string {
	k := ""
	var walk func(a, b reflect.Value)
	walk = func(a, b reflect.Value) {
		a, b = access(a), access(b)
		if k != "" {
			return
		}
		switch a.Kind() {
		case reflect.Float32, reflect.Float64:
			if math.Signbit(a.Float()) != math.Signbit(b.Float()) {
				k = "float-zero-sign|" + a.Type().String()
			}
		case reflect.Complex64, reflect.Complex128:
			ca, cb := a.Complex(), b.Complex()
			if math.Signbit(real(ca)) != math.Signbit(real(cb)) || math.Signbit(imag(ca)) != math.Signbit(imag(cb)) {
				k = "float-zero-sign|" + a.Type().String()
			}
		case reflect.Ptr:
			if !a.IsNil() && !b.IsNil() {
				walk(a.Elem(), b.Elem())
			}
		case reflect.Slice, reflect.Array:
			if a.Kind() == reflect.Slice && (a.IsNil() || b.IsNil()) {
				if a.IsNil() != b.IsNil() {
					k = "nil-vs-empty|" + a.Type().String()
				}
				return
			}
			for i := 0; i < a.Len() && i < b.Len(); i++ {
				walk(a.Index(i), b.Index(i))
			}
		case reflect.Map:
			if a.IsNil() || b.IsNil() {
				if a.IsNil() != b.IsNil() {
					k = "nil-vs-empty|" + a.Type().String()
				}
				return
			}
			keys := a.MapKeys()
			sort.Slice(keys, func(i, j int) bool { return Canon(keys[i]) < Canon(keys[j]) })
			bkeys := b.MapKeys()
			sort.Slice(bkeys, func(i, j int) bool { return Canon(bkeys[i]) < Canon(bkeys[j]) })
			for i := range keys {
				if i < len(bkeys) {
					walk(Addressable(keys[i]), Addressable(bkeys[i]))
				}
			}
			for _, key := range keys {
				bv := b.MapIndex(key)
				if bv.IsValid() {
					walk(Addressable(a.MapIndex(key)), Addressable(bv))
				}
			}
		case reflect.Struct:
			for i := 0; i < a.NumField(); i++ {
				walk(a.Field(i), b.Field(i))
			}
		}
	}
	walk(Addressable(x), Addressable(y))
	if k == "" {
		k = "same-contents"
	}
	return k
}

func propC04(h *H) {
	hash := h.F("hash")
	eq := h.F("equal")
	clone := h.F("clone")
	gens := Pool(h.T, h.Sc)
	n := len(gens)
	h.St.Pool = n
	hs := make([]uint64, n)
	ok := make([]bool, n)
	tab := map[string]string{}
	hasMap := containsKind(h.T, reflect.Map, map[reflect.Type]bool{})
	for i := 0; i < n; i++ {
		x := gens[i]()
		before := Canon(x)
		res, pan := Call(hash, x)
		h.St.Evals++
		if pan != "" {
			h.Violation("hash-panics", typeShapeKey(h.T), pan, x)
			continue
		}
		hs[i], ok[i] = res[0].Uint(), true
		tab[fmt.Sprintf("%03d", i)] = fmt.Sprintf("%s => %d", Show(x), hs[i])
		if Canon(x) != before {
			h.Violation("hash-modifies-argument", typeShapeKey(h.T), "argument changed by hashing: before "+before, x)
		}
		// repeat: the generated code ranges over maps, whose iteration order the
		// runtime re-randomises on every range statement
		reps := 2
		if hasMap {
			reps = 40
		}
		for r := 0; r < reps; r++ {
			res2, pan := Call(hash, x)
			h.St.Evals++
			if pan == "" && res2[0].Uint() != hs[i] {
				h.Violation("hash-not-repeatable", typeShapeKey(h.T), fmt.Sprintf("%d then %d", hs[i], res2[0].Uint()), x)
				break
			}
		}
		// a fresh rebuild of the same value
		res3, pan := Call(hash, gens[i]())
		h.St.Evals++
		if pan == "" && res3[0].Uint() != hs[i] {
			h.Violation("hash-differs-on-rebuild", typeShapeKey(h.T), fmt.Sprintf("%d vs %d for a rebuilt copy", hs[i], res3[0].Uint()), x)
		}
		if clone.IsValid() {
			cr, pan := Call(clone, gens[i]())
			if pan == "" {
				r4, pan := Call(hash, cr[0])
				h.St.Evals++
				if pan == "" && r4[0].Uint() != hs[i] && RefEqual(cr[0], x, false) {
					h.Violation("hash-differs-on-clone", typeShapeKey(h.T), fmt.Sprintf("%d vs %d for derived Clone", hs[i], r4[0].Uint()), x)
				}
			}
		}
	}
	distinct := map[uint64]bool{}
	for i := 0; i < n; i++ {
		if ok[i] {
			distinct[hs[i]] = true
		}
	}
	h.Outcome(fmt.Sprintf("distinct-hashes=%d", len(distinct)))
	for i := 0; i < n; i++ {
		for j := i + 1; j < n; j++ {
			if !ok[i] || !ok[j] {
				continue
			}
			x, y := gens[i](), gens[j]()
			h.St.States++
			if !RefEqual(x, y, false) {
				continue
			}
			if eq.IsValid() {
				r, pan := Call(eq, x, y)
				if pan != "" || !r[0].Bool() {
					continue
				}
			}
			h.St.Nontriv++
			if h.St.Sample == "" {
				h.St.Sample = fmt.Sprintf("Hash(%s)=%d, Hash(%s)=%d", Show(x), hs[i], Show(y), hs[j])
			}
			if hs[i] != hs[j] {
				h.Violation("equal-pair-hash-differs", reprDiff(x, y), fmt.Sprintf("Equal values hash to %d and %d", hs[i], hs[j]), x, y)
			}
		}
	}
	h.out.Encode(Table{K: "table", Case: h.C.ID, Vals: tab})
}

// ---------------------------------------------------------------- C05

// Extent is a piece of memory reachable from a value.
type Extent struct {
	Lo, Hi uintptr
	What   string
}

// MemSet collects pointer targets, slice backing arrays and maps reachable
// from v. skipRoot leaves out the root cell itself (e.g. the destination
// pointer handed to DeepCopy).
func MemSet(v reflect.Value) []Extent {
	var out []Extent
	seen := map[uintptr]bool{}
	var walk func(v reflect.Value, path string)
	walk = func(v reflect.Value, path string) {
		v = access(v)
		switch v.Kind() {
		case reflect.Ptr:
			if v.IsNil() {
				return
			}
			sz := v.Type().Elem().Size()
			p := v.Pointer()
			if sz > 0 {
				if seen[p] {
					return
				}
				seen[p] = true
				out = append(out, Extent{p, p + sz, path + " -> " + v.Type().String()})
			}
			walk(v.Elem(), path+".*")
		case reflect.Slice:
			if v.IsNil() {
				return
			}
			sz := v.Type().Elem().Size()
			if v.Cap() > 0 && sz > 0 {
				p := v.Pointer()
				out = append(out, Extent{p, p + uintptr(v.Cap())*sz, path + " backing " + v.Type().String()})
			}
			for i := 0; i < v.Len(); i++ {
				walk(v.Index(i), fmt.Sprintf("%s[%d]", path, i))
			}
		case reflect.Array:
			for i := 0; i < v.Len(); i++ {
				walk(v.Index(i), fmt.Sprintf("%s[%d]", path, i))
			}
		case reflect.Map:
			if v.IsNil() {
				return
			}
			p := v.Pointer()
			out = append(out, Extent{p, p + 1, path + " map " + v.Type().String()})
			it := v.MapRange()
			for it.Next() {
				walk(Addressable(it.Key()), path+"<key>")
				walk(Addressable(it.Value()), path+"["+Show(it.Key())+"]")
			}
		case reflect.Struct:
			for i := 0; i < v.NumField(); i++ {
				walk(v.Field(i), path+"."+v.Type().Field(i).Name)
			}
		}
	}
	walk(Addressable(v), "")
	return out
}

// Overlap returns a description of the first overlapping pair, or "".
func Overlap(a, b []Extent) string {
	for _, x := range a {
		for _, y := range b {
			if x.Lo < y.Hi && y.Lo < x.Hi {
				return x.What + " overlaps " + y.What
			}
		}
	}
	return ""
}

// Mutate changes every reachable leaf of v in place, keeping nil-ness and lengths.
func Mutate(v reflect.Value) {
	seen := map[uintptr]bool{}
	var walk func(v reflect.Value)
	walk = func(v reflect.Value) {
		v = access(v)
		switch v.Kind() {
		case reflect.Bool:
			v.SetBool(!v.Bool())
		case reflect.Int, reflect.Int8, reflect.Int16, reflect.Int32, reflect.Int64:
			v.SetInt(v.Int() + 7)
		case reflect.Uint, reflect.Uint8, reflect.Uint16, reflect.Uint32, reflect.Uint64, reflect.Uintptr:
			v.SetUint(v.Uint() + 7)
		case reflect.Float32, reflect.Float64:
			v.SetFloat(v.Float() + 7)
		case reflect.Complex64, reflect.Complex128:
			v.SetComplex(v.Complex() + 7)
		case reflect.String:
			v.SetString(v.String() + "~")
		case reflect.Ptr:
			if v.IsNil() || seen[v.Pointer()] {
				return
			}
			seen[v.Pointer()] = true
			walk(v.Elem())
		case reflect.Slice:
			full := v
			if !v.IsNil() && v.Cap() > v.Len() {
				full = v.Slice(0, v.Cap())
			}
			for i := 0; i < full.Len(); i++ {
				walk(full.Index(i))
			}
		case reflect.Array:
			for i := 0; i < v.Len(); i++ {
				walk(v.Index(i))
			}
		case reflect.Map:
			if v.IsNil() {
				return
			}
			for _, k := range v.MapKeys() {
				e := Addressable(v.MapIndex(k))
				walk(e)
				v.SetMapIndex(k, e)
			}
		case reflect.Struct:
			for i := 0; i < v.NumField(); i++ {
				walk(v.Field(i))
			}
		}
	}
	if !v.CanAddr() {
		panic("rt.Mutate: need addressable value")
	}
	walk(v)
}

// Overwrite replaces what the reference x points to by the contents of src, keeping the
// reference itself (pointer target, map, backing array): the situation of a caller who
// keeps using a value after handing it to a curried function. False when the root of x is
// not a shared reference (values are copied into the closure by the language).
func Overwrite(x, src reflect.Value) bool {
	if x.Kind() != src.Kind() {
		return false
	}
	switch x.Kind() {
	case reflect.Ptr:
		if x.IsNil() || src.IsNil() {
			return false
		}
		access(x.Elem()).Set(access(src.Elem()))
		return true
	case reflect.Map:
		if x.IsNil() || src.IsNil() {
			return false
		}
		for _, k := range x.MapKeys() {
			x.SetMapIndex(k, reflect.Value{})
		}
		for _, k := range src.MapKeys() {
			x.SetMapIndex(k, src.MapIndex(k))
		}
		return true
	case reflect.Slice:
		if x.IsNil() || src.IsNil() || x.Len() != src.Len() || x.Len() == 0 {
			return false
		}
		reflect.Copy(x, src)
		return true
	}
	return false
}

// lateBinding: a curried function made for x, x overwritten in place afterwards, then
// applied. The answer has to be the binary form's for x as it is now, or for x as it was
// when the function was made (a complete snapshot) - not a mixture of the two.
func lateBinding(h *H, gens []Gen, bin, cur reflect.Value, clause string) {
	n := len(gens)
	for i := 0; i < n; i++ {
		probe := gens[i]()
		if !Overwrite(probe, gens[(i+1)%n]()) {
			continue
		}
		for j := 0; j < n; j++ {
			x := gens[i]()
			res, pan := Call(cur, x)
			if pan != "" {
				break // reported by the pair loop
			}
			Overwrite(x, gens[(i+1)%n]())
			y := gens[j]()
			r2, pan2 := Call(res[0], y)
			now, pan3 := Call(bin, x, y)
			then, pan4 := Call(bin, gens[i](), y)
			h.St.Evals += 3
			if pan2 != "" || pan3 != "" || pan4 != "" {
				if pan2 != "" && pan3 == "" {
					h.Violation(clause+"-panics", panKey(x, y), pan2, x, y)
				}
				continue
			}
			h.St.States++
			a := fmt.Sprint(r2[0].Interface())
			if a != fmt.Sprint(now[0].Interface()) && a != fmt.Sprint(then[0].Interface()) {
				d := Diff(x, y)
				h.Violation(clause, fmt.Sprintf("%s|%s|%s", d.Kind, d.Type, d.Ctx),
					fmt.Sprintf("curried function made for %s, argument then overwritten in place: curried=%s, binary form on the current value=%v, on the original value=%v",
						Show(gens[i]()), a, now[0].Interface(), then[0].Interface()), x, y)
			} else if fmt.Sprint(now[0].Interface()) != fmt.Sprint(then[0].Interface()) {
				h.St.Nontriv++
			}
		}
	}
}

func propC05(h *H) {
	dc := h.F("deepcopy")
	clone := h.F("clone")
	gens := Pool(h.T, h.Sc)
	n := len(gens)
	h.St.Pool = n
	kind := h.T.Kind()
	check := func(what string, src, dst reflect.Value, srcCanon string, rootCmp bool, prior reflect.Value) {
		// (1) equal, including nil-ness everywhere
		var a, b string
		if rootCmp {
			a, b = Canon(dst), Canon(src)
		} else {
			a, b = canonElems(dst), canonElems(src)
		}
		d := DiffInfo{}
		if a != b {
			if rootCmp {
				d = Diff(dst, src)
			} else {
				d = diffElems(dst, src)
			}
			h.Violation(what+"-not-equal", fmt.Sprintf("%s|%s|%s", d.Kind, d.Type, d.Ctx),
				fmt.Sprintf("copy differs from source at %q (%s); prior destination %s", d.Path, d.Kind, showOpt(prior)), src, dst)
		}
		// (2) source unchanged
		if Canon(src) != srcCanon {
			h.Violation(what+"-modifies-source", typeShapeKey(h.T), "source changed by the copy; prior destination "+showOpt(prior), src)
		}
		// (3) memory disjoint
		if ov := Overlap(MemSet(dst), MemSet(src)); ov != "" {
			h.Violation(what+"-shares-memory", shareKey(ov), ov+"; prior destination "+showOpt(prior), src, dst)
		}
		// (4) writes through one are invisible through the other
		dstCanon := Canon(dst)
		dstA := Addressable(dst)
		Mutate(dstA)
		if Canon(src) != srcCanon {
			h.Violation(what+"-write-to-copy-visible-in-source", typeShapeKey(h.T), "after mutating every location of the copy the source changed", src)
		}
		_ = dstCanon
		srcA := Addressable(src)
		c0 := Canon(dstA)
		Mutate(srcA)
		if Canon(dstA) != c0 {
			h.Violation(what+"-write-to-source-visible-in-copy", typeShapeKey(h.T), "after mutating every location of the source the copy changed", src)
		}
	}
	if dc.IsValid() {
		for i := 0; i < n; i++ {
			for j := 0; j < n; j++ {
				src, dst := gens[i](), gens[j]()
				var prior reflect.Value
				rootCmp := true
				switch kind {
				case reflect.Ptr:
					if src.IsNil() || dst.IsNil() {
						continue
					}
				case reflect.Slice:
					if dst.Len() < src.Len() {
						continue
					}
					dst = dst.Slice(0, src.Len())
					rootCmp = false
				case reflect.Map:
					if j != 0 {
						continue
					}
					dst = reflect.MakeMap(h.T)
					rootCmp = false
					if src.IsNil() {
						// nothing to copy; still must not panic
					}
				default:
					h.St.Skipped = "deepcopy needs pointer, slice or map"
					continue
				}
				prior = gens[j]()
				srcCanon := Canon(src)
				h.St.States++
				_, pan := Call(dc, dst, src)
				h.St.Evals++
				if pan != "" {
					h.Violation("deepcopy-panics", typeShapeKey(h.T), pan+"; prior destination "+Show(prior), src)
					continue
				}
				if i != j {
					h.St.Nontriv++
				}
				if h.St.Sample == "" && i == n-1 {
					h.St.Sample = fmt.Sprintf("DeepCopy(dst=%s, src=%s) -> dst=%s", Show(prior), Show(src), Show(dst))
				}
				check("deepcopy", src, dst, srcCanon, rootCmp, prior)
			}
		}
	}
	if clone.IsValid() {
		for i := 0; i < n; i++ {
			src := gens[i]()
			srcCanon := Canon(src)
			h.St.States++
			res, pan := Call(clone, src)
			h.St.Evals++
			if pan != "" {
				h.Violation("clone-panics", typeShapeKey(h.T), pan, src)
				continue
			}
			h.St.Nontriv++
			check("clone", src, res[0], srcCanon, true, reflect.Value{})
		}
	}
	h.Outcome("done")
}

func showOpt(v reflect.Value) string {
	if !v.IsValid() {
		return "(none)"
	}
	return Show(v)
}

func shareKey(ov string) string {
	// keep only the type part of the first extent description
	return ov
}

// canonElems encodes only the elements/entries of a slice or map root.
func canonElems(v reflect.Value) string {
	switch v.Kind() {
	case reflect.Slice:
		s := fmt.Sprintf("len%d[", v.Len())
		for i := 0; i < v.Len(); i++ {
			s += Canon(v.Index(i)) + ";"
		}
		return s + "]"
	case reflect.Map:
		if v.IsNil() || v.Len() == 0 {
			return "M{}"
		}
		return Canon(v)
	}
	return Canon(v)
}

func diffElems(x, y reflect.Value) DiffInfo {
	if x.Kind() == reflect.Slice {
		d := &DiffInfo{}
		for i := 0; i < x.Len() && i < y.Len(); i++ {
			diff(d, x.Index(i), y.Index(i), fmt.Sprintf("[%d]", i), "elem")
		}
		return *d
	}
	if x.Kind() == reflect.Map && (x.IsNil() || y.IsNil()) {
		d := &DiffInfo{}
		if x.Len() != y.Len() {
			d.note("", x.Type().String(), "len", "root", 0)
		}
		return *d
	}
	return Diff(x, y)
}

func containsKind(t reflect.Type, k reflect.Kind, seen map[reflect.Type]bool) bool {
	if seen[t] {
		return false
	}
	seen[t] = true
	if t.Kind() == k {
		return true
	}
	switch t.Kind() {
	case reflect.Ptr, reflect.Slice, reflect.Array:
		return containsKind(t.Elem(), k, seen)
	case reflect.Map:
		return containsKind(t.Key(), k, seen) || containsKind(t.Elem(), k, seen)
	case reflect.Struct:
		for i := 0; i < t.NumField(); i++ {
			if containsKind(t.Field(i).Type, k, seen) {
				return true
			}
		}
	}
	return false
}
