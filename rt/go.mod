module verifrt

go 1.24
