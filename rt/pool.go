package rt

import (
	"math"
	"reflect"
)

// Gen builds a fresh value (fresh memory for every pointer target, slice
// backing array and map) on every call.
type Gen func() reflect.Value

// Scope bounds the value alphabet.
type Scope struct {
	Vmax  int  // maximal pool size at the root
	ElemK int  // reduced pool used for pairs / tuples of elements
	Fuel  int  // nesting budget for recursive types
	Text  bool // text/boundary biased leaves (GoString)
	Wide  bool // wider leaf domains (collision search)
}

type poolKey struct {
	t    reflect.Type
	fuel int
}

type pooler struct {
	sc   Scope
	memo map[poolKey][]Gen
}

// Pool returns the value pool of t under sc.
func Pool(t reflect.Type, sc Scope) []Gen {
	p := &pooler{sc: sc, memo: map[poolKey][]Gen{}}
	gs := p.pool(t, sc.Fuel)
	if len(gs) > sc.Vmax {
		gs = gs[:sc.Vmax]
	}
	return gs
}

func constGen(t reflect.Type, x interface{}) Gen {
	return func() reflect.Value {
		v := reflect.New(t).Elem()
		v.Set(reflect.ValueOf(x).Convert(t))
		return v
	}
}

// headTail keeps the first a and the last b values of a pool.
func headTail(gs []Gen, a, b int) []Gen {
	if len(gs) <= a+b {
		return gs
	}
	return append(append([]Gen{}, gs[:a]...), gs[len(gs)-b:]...)
}

func head(gs []Gen, n int) []Gen {
	if len(gs) > n {
		return gs[:n]
	}
	return gs
}

func setField(s reflect.Value, i int, val reflect.Value) {
	access(s.Field(i)).Set(val)
}

func (p *pooler) pool(t reflect.Type, fuel int) []Gen {
	k := poolKey{t, fuel}
	if gs, ok := p.memo[k]; ok {
		return gs
	}
	gs := p.build(t, fuel)
	p.memo[k] = gs
	return gs
}

func (p *pooler) build(t reflect.Type, fuel int) []Gen {
	K := p.sc.ElemK
	var gs []Gen
	add := func(xs ...interface{}) {
		for _, x := range xs {
			gs = append(gs, constGen(t, x))
		}
	}
	switch t.Kind() {
	case reflect.Bool:
		add(false, true)
	case reflect.Int, reflect.Int8, reflect.Int16, reflect.Int32, reflect.Int64:
		add(0, 1, -1)
		if p.sc.Wide {
			for i := 2; i <= 40; i++ {
				add(i)
			}
		}
		{
			// extreme values: differences that overflow, widest printed forms
			bits := uint(t.Bits())
			min := int64(-1) << (bits - 1)
			max := ^min
			gs = append(gs, func() reflect.Value { v := reflect.New(t).Elem(); v.SetInt(min); return v })
			if bits == 64 {
				// a neighbour of the maximum: both have the same float64 image
				gs = append(gs, func() reflect.Value { v := reflect.New(t).Elem(); v.SetInt(max - 1); return v })
			}
			gs = append(gs, func() reflect.Value { v := reflect.New(t).Elem(); v.SetInt(max); return v })
		}
	case reflect.Uint, reflect.Uint8, reflect.Uint16, reflect.Uint32, reflect.Uint64, reflect.Uintptr:
		add(uint8(0), uint8(1), uint8(2))
		{
			bits := uint(t.Bits())
			max := ^uint64(0) >> (64 - bits)
			gs = append(gs, func() reflect.Value { v := reflect.New(t).Elem(); v.SetUint(max); return v })
		}
	case reflect.Float32, reflect.Float64:
		add(0.0, math.Copysign(0, -1), 1.5)
		if p.sc.Text {
			add(-2.25, 1e20)
		}
	case reflect.Complex64, reflect.Complex128:
		nz := math.Copysign(0, -1)
		// signed zeros in either part: == (and derived Equal) ignore the sign
		// three different values first (maps take their keys from the head of the key
		// pool; 1 and i are ordered oppositely in their two parts), sign variants after
		add(complex(0, 0), complex(1, 0), complex(0, 1), complex(0, nz), complex(nz, 0), complex(1, nz))
	case reflect.String:
		if p.sc.Text {
			// the awkward ones first: nested pools only keep the head of a pool
			add("", "a", "100%", "q\"\n`", "%d a%%b", "b", "\xff", "é€😀", "a\\b")
		} else {
			add("", "a", "b")
		}
		if p.sc.Wide {
			add("Aa", "BB", "C#", "Ab", "BC", "aa", "bB")
		}
	case reflect.Ptr:
		gs = append(gs, func() reflect.Value { return reflect.Zero(t) })
		if fuel > 0 {
			for _, g := range p.pool(t.Elem(), fuel-1) {
				g := g
				gs = append(gs, func() reflect.Value {
					pv := reflect.New(t.Elem())
					pv.Elem().Set(g())
					if pv.Type() != t {
						return pv.Convert(t)
					}
					return pv
				})
			}
		}
	case reflect.Slice:
		mk := func(capExtra int, elems ...Gen) Gen {
			return func() reflect.Value {
				s := reflect.MakeSlice(t, len(elems), len(elems)+capExtra)
				for i, e := range elems {
					s.Index(i).Set(e())
				}
				return s
			}
		}
		gs = append(gs, func() reflect.Value { return reflect.Zero(t) })
		gs = append(gs, mk(0))
		if fuel > 0 {
			ep := p.pool(t.Elem(), fuel-1)
			singles := head(ep, 6)
			for _, e := range singles {
				gs = append(gs, mk(0, e))
			}
			if len(ep) > 0 {
				gs = append(gs, mk(3, ep[0])) // spare capacity
				gs = append(gs, mk(2))        // empty with capacity
			}
			red := head(ep, K)
			for _, a := range red {
				for _, b := range red {
					gs = append(gs, mk(0, a, b))
				}
			}
			// internally shared substructure: the same reference twice
			switch t.Elem().Kind() {
			case reflect.Ptr, reflect.Map, reflect.Slice:
				if len(ep) > 1 {
					e := ep[1]
					gs = append(gs, func() reflect.Value {
						s := reflect.MakeSlice(t, 2, 2)
						x := e()
						s.Index(0).Set(x)
						s.Index(1).Set(x)
						return s
					})
				}
			}
			if len(red) > 0 {
				gs = append(gs, mk(0, red[0], red[len(red)-1], red[0]))
			}
		}
	case reflect.Array:
		n := t.Len()
		ep := p.pool(t.Elem(), fuel-1)
		if fuel <= 0 {
			ep = p.pool(t.Elem(), 0)
		}
		red := head(ep, K)
		if n == 0 || len(red) == 0 {
			gs = append(gs, func() reflect.Value { return reflect.New(t).Elem() })
			break
		}
		// all tuples over the reduced pool (capped)
		idx := make([]int, n)
		count := 0
		for {
			cur := append([]int(nil), idx...)
			gs = append(gs, func() reflect.Value {
				a := reflect.New(t).Elem()
				for i, j := range cur {
					a.Index(i).Set(red[j]())
				}
				return a
			})
			count++
			i := n - 1
			for i >= 0 {
				idx[i]++
				if idx[i] < len(red) {
					break
				}
				idx[i] = 0
				i--
			}
			if i < 0 || count >= 64 {
				break
			}
		}
		// one tuple using a later element of the pool, for coverage of the tail
		if len(ep) > K {
			last := ep[len(ep)-1]
			gs = append(gs, func() reflect.Value {
				a := reflect.New(t).Elem()
				for i := 0; i < n; i++ {
					a.Index(i).Set(red[0]())
				}
				a.Index(n - 1).Set(last())
				return a
			})
		}
	case reflect.Map:
		type ent struct{ k, v Gen }
		mk := func(es ...ent) Gen {
			return func() reflect.Value {
				m := reflect.MakeMap(t)
				for _, e := range es {
					m.SetMapIndex(e.k(), e.v())
				}
				return m
			}
		}
		gs = append(gs, func() reflect.Value { return reflect.Zero(t) })
		gs = append(gs, mk())
		if fuel > 0 {
			kp := head(p.pool(t.Key(), fuel-1), 3)
			vp := head(p.pool(t.Elem(), fuel-1), K)
			for ki, k := range kp {
				if ki >= 2 {
					break
				}
				for _, v := range vp {
					gs = append(gs, mk(ent{k, v}))
				}
			}
			if len(kp) >= 2 && len(vp) >= 1 {
				v0, v1 := vp[0], vp[len(vp)-1]
				gs = append(gs, mk(ent{kp[0], v0}, ent{kp[1], v1}))
				gs = append(gs, mk(ent{kp[1], v1}, ent{kp[0], v0})) // other insertion order
				gs = append(gs, mk(ent{kp[0], v1}, ent{kp[1], v0}))
				gs = append(gs, mk(ent{kp[0], v0}, ent{kp[1], v0}))
				// two distinct keys whose 31-polynomial hashes collide (a sorted-key walk
				// that orders keys by hash would leave their order to the map iteration)
				if ck := collidingKeys(t.Key()); ck != nil {
					gs = append(gs, mk(ent{ck[0], v0}, ent{ck[1], v1}))
					gs = append(gs, mk(ent{ck[1], v1}, ent{ck[0], v0}))
				}
				// struct values: two entries whose values differ in one element of a slice of
				// the same length (a copy that reuses storage between entries shows)
				if t.Elem().Kind() == reflect.Struct {
					for _, g := range p.pool(t.Elem(), fuel-1) {
						g := g
						if probe := Addressable(g()); tweakSlice(probe) {
							tw := func() reflect.Value { v := Addressable(g()); tweakSlice(v); return v }
							gs = append(gs, mk(ent{kp[0], g}, ent{kp[1], tw}))
							gs = append(gs, mk(ent{kp[0], tw}, ent{kp[1], g}))
							break
						}
					}
				}
				if len(kp) >= 3 {
					gs = append(gs, mk(ent{kp[0], v0}, ent{kp[2], v1}))
					gs = append(gs, mk(ent{kp[2], v0}, ent{kp[1], v1}, ent{kp[0], v1}))
					gs = append(gs, mk(ent{kp[0], v1}, ent{kp[1], v1}, ent{kp[2], v0}))
				}
				// composite keys: the tail of the key pool (extreme components), and two
				// representations of one key (sign of a zero) next to a third key
				if kk := t.Key().Kind(); kk == reflect.Struct || kk == reflect.Array {
					full := p.pool(t.Key(), fuel-1)
					if n := len(full); n > 3 {
						gs = append(gs, mk(ent{full[n-1], v0}, ent{full[n-2], v1}))
						gs = append(gs, mk(ent{full[n-2], v1}, ent{full[n-1], v0}))
					}
					if x, y, zs, ok := signTwins(full); ok {
						for _, z := range zs {
							gs = append(gs, mk(ent{x, v0}, ent{z, v1}))
							gs = append(gs, mk(ent{y, v0}, ent{z, v1}))
						}
						gs = append(gs, mk(ent{zs[0], v1}, ent{y, v0}))
					}
				}
			}
		}
	case reflect.Struct:
		n := t.NumField()
		if n == 0 {
			gs = append(gs, func() reflect.Value { return reflect.New(t).Elem() })
			break
		}
		fps := make([][]Gen, n)
		prod := 1
		for i := 0; i < n; i++ {
			f := fuel - 1
			if f < 0 {
				f = 0
			}
			// the first values and the last two (integer extremes sit at the end of a pool)
			tail := 2
			if t.Field(i).Type.Kind() == reflect.Map {
				tail = 10 // the maps over awkward composite keys come last
			}
			fps[i] = headTail(p.pool(t.Field(i).Type, f), 3, tail)
			if t.Field(i).Name == "_" && len(fps[i]) > 1 {
				fps[i] = fps[i][:1] // blank fields are not part of a struct's value (== ignores them)
			}
			if prod < 1<<20 {
				prod *= len(fps[i])
			}
		}
		mk := func(idx []int) Gen {
			cur := append([]int(nil), idx...)
			return func() reflect.Value {
				s := reflect.New(t).Elem()
				for i, j := range cur {
					setField(s, i, fps[i][j]())
				}
				return s
			}
		}
		if prod <= 36 {
			idx := make([]int, n)
			for {
				gs = append(gs, mk(idx))
				i := n - 1
				for i >= 0 {
					idx[i]++
					if idx[i] < len(fps[i]) {
						break
					}
					idx[i] = 0
					i--
				}
				if i < 0 {
					break
				}
			}
		} else {
			// star design around two base points: every single-field variation
			seen := map[string]bool{}
			emit := func(idx []int) {
				key := ""
				for _, j := range idx {
					key += string(rune('a' + j))
				}
				if !seen[key] {
					seen[key] = true
					gs = append(gs, mk(idx))
				}
			}
			bases := [][]int{make([]int, n), make([]int, n)}
			for i := 0; i < n; i++ {
				if len(fps[i]) > 1 {
					bases[1][i] = 1
				}
				if len(fps[i]) > 2 {
					bases[1][i] = 2
				}
			}
			for _, b := range bases {
				emit(b)
			}
			for _, b := range bases {
				for i := 0; i < n; i++ {
					for j := 0; j < len(fps[i]); j++ {
						idx := append([]int(nil), b...)
						idx[i] = j
						emit(idx)
					}
				}
			}
		}
	case reflect.Interface:
		gs = append(gs, func() reflect.Value { return reflect.Zero(t) })
	default:
		panic("rt.Pool: unsupported kind " + t.Kind().String() + " in " + t.String())
	}
	return gs
}

// tweakSlice changes the first element of the first non-empty slice of basic
// elements found in the struct v (fields and arrays only), on a fresh backing
// array; it reports whether there was one.
func tweakSlice(v reflect.Value) bool {
	v = access(v)
	switch v.Kind() {
	case reflect.Struct:
		for i := 0; i < v.NumField(); i++ {
			if tweakSlice(v.Field(i)) {
				return true
			}
		}
	case reflect.Array:
		for i := 0; i < v.Len(); i++ {
			if tweakSlice(v.Index(i)) {
				return true
			}
		}
	case reflect.Slice:
		if v.Len() < 2 {
			return false
		}
		c := reflect.MakeSlice(v.Type(), v.Len(), v.Len())
		reflect.Copy(c, v)
		e := c.Index(0)
		switch e.Kind() {
		case reflect.Int, reflect.Int8, reflect.Int16, reflect.Int32, reflect.Int64:
			e.SetInt(e.Int() ^ 5)
		case reflect.Uint, reflect.Uint8, reflect.Uint16, reflect.Uint32, reflect.Uint64:
			e.SetUint(e.Uint() ^ 5)
		case reflect.String:
			e.SetString(e.String() + "~")
		case reflect.Bool:
			e.SetBool(!e.Bool())
		case reflect.Float32, reflect.Float64:
			e.SetFloat(e.Float() + 3)
		default:
			return false
		}
		v.Set(c)
		return true
	}
	return false
}

// signTwins finds in a pool two values that are equal under == but differ in
// the sign of a zero, and a third value that sorts between or beside them.
func signTwins(gs []Gen) (x, y Gen, zs []Gen, ok bool) {
	if len(gs) > 200 {
		gs = gs[:200]
	}
	cs := make([]string, len(gs))
	for i, g := range gs {
		cs[i] = Canon(g())
	}
	for i := range gs {
		for j := i + 1; j < len(gs); j++ {
			if cs[i] != cs[j] || !signDiffers(gs[i](), gs[j]()) {
				continue
			}
			// third keys: up to four values that differ from the twins in another
			// component only or in everything (the first and the last candidates)
			var cand []Gen
			for k := range gs {
				if cs[k] != cs[i] {
					cand = append(cand, gs[k])
				}
			}
			if len(cand) == 0 {
				continue
			}
			if len(cand) > 4 {
				cand = append(append([]Gen{}, cand[:2]...), cand[len(cand)-2:]...)
			}
			// prefer twins that are not the all-zero value: a third key can then sort before them
			if i == 0 && len(gs) > 8 {
				for i2 := 1; i2 < len(gs); i2++ {
					for j2 := i2 + 1; j2 < len(gs); j2++ {
						if cs[i2] == cs[j2] && cs[i2] != cs[0] && signDiffers(gs[i2](), gs[j2]()) {
							return gs[i2], gs[j2], append(cand, gs[0]), true
						}
					}
				}
			}
			return gs[i], gs[j], cand, true
		}
	}
	return nil, nil, nil, false
}

// signDiffers reports whether two ==-equal values differ in the sign of a floating point zero.
func signDiffers(a, b reflect.Value) bool {
	a, b = access(Addressable(a)), access(Addressable(b))
	switch a.Kind() {
	case reflect.Float32, reflect.Float64:
		return math.Signbit(a.Float()) != math.Signbit(b.Float())
	case reflect.Complex64, reflect.Complex128:
		return math.Signbit(real(a.Complex())) != math.Signbit(real(b.Complex())) || math.Signbit(imag(a.Complex())) != math.Signbit(imag(b.Complex()))
	case reflect.Struct:
		for i := 0; i < a.NumField(); i++ {
			if signDiffers(a.Field(i), b.Field(i)) {
				return true
			}
		}
	case reflect.Array:
		for i := 0; i < a.Len(); i++ {
			if signDiffers(a.Index(i), b.Index(i)) {
				return true
			}
		}
	}
	return false
}

// collidingKeys returns two distinct keys of type t that collide under a
// 31-multiplier polynomial hash, for the key kinds where such a pair is known.
func collidingKeys(t reflect.Type) []Gen {
	switch {
	case t.Kind() == reflect.String:
		return []Gen{constGen(t, "Aa"), constGen(t, "BB")}
	case t.Kind() == reflect.Array && t.Len() == 2 && t.Elem().Kind() == reflect.Int:
		mk := func(a, b int64) Gen {
			return func() reflect.Value {
				v := reflect.New(t).Elem()
				v.Index(0).SetInt(a)
				v.Index(1).SetInt(b)
				return v
			}
		}
		return []Gen{mk(0, 31), mk(1, 0)}
	}
	return nil
}

// AliasVariants returns values that share memory with x: for every slice of
// length >= 2 reachable without crossing a pointer or map, a shallow copy of x
// in which that slice is resliced one element shorter (same backing array), and
// x itself (identical addresses everywhere).
func AliasVariants(x reflect.Value) []reflect.Value {
	var out []reflect.Value
	x = Addressable(x)
	var paths [][]int
	var walk func(v reflect.Value, path []int)
	walk = func(v reflect.Value, path []int) {
		v = access(v)
		switch v.Kind() {
		case reflect.Slice:
			if v.Len() >= 2 {
				paths = append(paths, append([]int(nil), path...))
			}
		case reflect.Struct:
			for i := 0; i < v.NumField(); i++ {
				walk(v.Field(i), append(path, i))
			}
		case reflect.Array:
			for i := 0; i < v.Len(); i++ {
				walk(v.Index(i), append(path, i))
			}
		}
	}
	walk(x, nil)
	for _, p := range paths {
		c := reflect.New(x.Type()).Elem()
		c.Set(x) // shallow: shares every pointer target, backing array and map with x
		cur := c
		for _, i := range p {
			cur = access(cur)
			if cur.Kind() == reflect.Struct {
				cur = cur.Field(i)
			} else {
				cur = cur.Index(i)
			}
		}
		cur = access(cur)
		cur.Set(cur.Slice(0, cur.Len()-1))
		out = append(out, c)
	}
	// through one pointer at the root
	if x.Kind() == reflect.Ptr && !x.IsNil() {
		for _, v := range AliasVariants(x.Elem()) {
			p := reflect.New(x.Type().Elem())
			p.Elem().Set(v)
			out = append(out, p)
		}
	}
	same := reflect.New(x.Type()).Elem()
	same.Set(x)
	return append(out, same)
}
