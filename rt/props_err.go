package rt

import (
	"errors"
	"fmt"
	"reflect"
)

func init() {
	props["C16"] = propC16
}

var errorType = reflect.TypeOf((*error)(nil)).Elem()

type myErr struct{ s string }

func (e *myErr) Error() string { return e.s }

// two distinct error values (one of a user-defined type)
var injected = []error{errors.New("injected error one"), &myErr{"injected error two"}}

func errVal(e error) reflect.Value {
	v := reflect.New(errorType).Elem()
	if e != nil {
		v.Set(reflect.ValueOf(e))
	}
	return v
}

func sameErr(v reflect.Value, e error) bool {
	if v.IsNil() {
		return e == nil
	}
	return e != nil && v.Interface().(error) == e
}

func allZero(vs []reflect.Value) (int, bool) {
	for i, v := range vs {
		if !v.IsZero() {
			return i, false
		}
	}
	return -1, true
}

func propC16(h *H) {
	switch h.C.Tags["kind"] {
	case "compose":
		c16Compose(h)
	case "fmap-err":
		c16Fmap(h)
	case "join-err":
		c16Join(h)
	case "traverse":
		c16Traverse(h)
	case "toerror":
		c16ToError(h)
	default:
		panic("C16: unknown kind " + h.C.Tags["kind"])
	}
}

func (h *H) bad16(clause, detail string, args ...reflect.Value) {
	h.Violation(h.C.Tags["kind"]+"-"+clause, h.C.Tags["class"], h.C.Tags["sig"]+": "+detail, args...)
}

func c16Compose(h *H) {
	w := h.F("fn")
	k := w.Type().NumIn()
	F := make([]reflect.Type, k)
	for i := range F {
		F[i] = w.Type().In(i)
	}
	sc := h.Sc
	h.St.Pool = (k + 1) * len(injected)
	for fail := -1; fail < k; fail++ {
		for ei, inj := range injected {
			if fail < 0 && ei > 0 {
				continue
			}
			type call struct {
				stage int
				args  []string
			}
			var log []call
			outs := make([][]reflect.Value, k)
			fs := make([]reflect.Value, k)
			for i := 0; i < k; i++ {
				i := i
				nres := F[i].NumOut() - 1
				outs[i] = make([]reflect.Value, nres)
				for j := 0; j < nres; j++ {
					outs[i][j] = argFor(F[i].Out(j), 3*i+j, 1, sc)
				}
				fs[i] = reflect.MakeFunc(F[i], func(a []reflect.Value) []reflect.Value {
					log = append(log, call{i, canons(a)})
					r := append([]reflect.Value(nil), outs[i]...)
					if fail == i {
						return append(r, errVal(inj)) // non-zero results together with the error
					}
					return append(r, errVal(nil))
				})
			}
			in := make([]reflect.Value, F[0].NumIn())
			for j := range in {
				in[j] = argFor(F[0].In(j), 20+j, 1, sc)
			}
			h.St.States++
			h.St.Evals++
			r, pan := Call(w, fs...)
			var res []reflect.Value
			if pan == "" {
				res, pan = Call(dyn(r[0]), in...)
			}
			if pan != "" {
				h.bad16("panics", pan, in...)
				continue
			}
			last := k - 1
			if fail >= 0 {
				last = fail
			}
			okOrder := len(log) == last+1
			for i := 0; okOrder && i < len(log); i++ {
				okOrder = log[i].stage == i
			}
			if !okOrder {
				st := []int{}
				for _, c := range log {
					st = append(st, c.stage)
				}
				h.bad16("stage-order", fmt.Sprintf("failing stage %d: stages called %v", fail, st), in...)
				continue
			}
			passOK := eqStrs(log[0].args, canons(in))
			for i := 1; passOK && i < len(log); i++ {
				passOK = eqStrs(log[i].args, canons(outs[i-1]))
			}
			if !passOK {
				h.bad16("results-not-passed-unchanged", fmt.Sprintf("failing stage %d", fail), in...)
				continue
			}
			n := len(res) - 1
			if fail >= 0 {
				if !sameErr(res[n], inj) {
					h.bad16("wrong-error", fmt.Sprintf("failing stage %d: returned error %v", fail, res[n]), in...)
				} else if i, z := allZero(res[:n]); !z {
					h.bad16("non-zero-result-on-failure", fmt.Sprintf("failing stage %d: result %d is %s", fail, i, Show(res[i])), in...)
				}
			} else {
				if !res[n].IsNil() {
					h.bad16("wrong-error", "no stage failed but error is not nil", in...)
				} else if !eqStrs(canons(res[:n]), canons(outs[k-1])) {
					h.bad16("wrong-result", "success path differs from sequential composition", in...)
				}
			}
			h.St.Nontriv++
			if h.St.Sample == "" && fail == k-1 {
				h.St.Sample = fmt.Sprintf("%s with stage %d failing: stages called in order, error returned, results zero", h.C.Tags["sig"], fail)
			}
		}
	}
	h.Outcome("compose")
}

func c16Fmap(h *H) {
	w := h.F("fn")
	FT, GT := w.Type().In(0), w.Type().In(1)
	sc := h.Sc
	nf := FT.NumOut()
	fHasErr := nf > 0 && FT.Out(nf-1) == errorType
	type variant struct{ gFail, fFail bool }
	vs := []variant{{false, false}, {true, false}}
	if fHasErr {
		vs = append(vs, variant{false, true})
	}
	for _, v := range vs {
		for ei, inj := range injected {
			if !v.gFail && !v.fFail && ei > 0 {
				continue
			}
			var log []string
			a := argFor(GT.Out(0), 1, 1, sc)
			fouts := make([]reflect.Value, nf)
			for j := 0; j < nf; j++ {
				if FT.Out(j) == errorType {
					if v.fFail {
						fouts[j] = errVal(inj)
					} else {
						fouts[j] = errVal(nil)
					}
				} else {
					fouts[j] = argFor(FT.Out(j), 5+j, 1, sc)
				}
			}
			g := reflect.MakeFunc(GT, func([]reflect.Value) []reflect.Value {
				log = append(log, "g")
				if v.gFail {
					return []reflect.Value{a, errVal(inj)}
				}
				return []reflect.Value{a, errVal(nil)}
			})
			var fArg string
			f := reflect.MakeFunc(FT, func(in []reflect.Value) []reflect.Value {
				log = append(log, "f")
				fArg = Canon(in[0])
				return fouts
			})
			h.St.States++
			h.St.Evals++
			res, pan := Call(w, f, g)
			if pan != "" {
				h.bad16("panics", pan)
				continue
			}
			n := len(res) - 1
			if v.gFail {
				if !eqStrs(log, []string{"g"}) {
					h.bad16("stage-order", fmt.Sprintf("g failed: calls %v", log))
				} else if !sameErr(res[n], inj) {
					h.bad16("wrong-error", "g failed: returned error is not g's")
				} else if i, z := allZero(res[:n]); !z {
					h.bad16("non-zero-result-on-failure", fmt.Sprintf("g failed: result %d is %s", i, Show(res[i])))
				}
				h.St.Nontriv++
				continue
			}
			if !eqStrs(log, []string{"g", "f"}) {
				h.bad16("stage-order", fmt.Sprintf("calls after Fmap returned: %v (want g then f, each once)", log))
				continue
			}
			if fArg != Canon(a) {
				h.bad16("results-not-passed-unchanged", "f did not receive g's value")
				continue
			}
			if !res[n].IsNil() {
				h.bad16("wrong-error", "g succeeded but Fmap's own error is not nil")
				continue
			}
			switch {
			case nf == 0:
			case nf == 1:
				if Canon(res[0]) != Canon(fouts[0]) {
					h.bad16("wrong-result", "result is not f(g())")
				}
			default:
				// a function yielding f's results; reading it (twice) must not call f again
				for rep := 0; rep < 2; rep++ {
					got, pan := Call(res[0])
					if pan != "" {
						h.bad16("panics", pan)
						break
					}
					okv := true
					for j := range got {
						if FT.Out(j) == errorType {
							okv = okv && sameErrV(got[j], fouts[j])
						} else {
							okv = okv && Canon(got[j]) == Canon(fouts[j])
						}
					}
					if !okv {
						h.bad16("wrong-result", "returned function does not yield f's results")
						break
					}
				}
				if !eqStrs(log, []string{"g", "f"}) {
					h.bad16("stage-order", fmt.Sprintf("f evaluated again when the result was read: %v", log))
				}
			}
			h.St.Nontriv++
		}
	}
	h.Outcome("fmap-err")
}

func sameErrV(a, b reflect.Value) bool {
	if a.IsNil() || b.IsNil() {
		return a.IsNil() && b.IsNil()
	}
	return a.Interface().(error) == b.Interface().(error)
}

func c16Join(h *H) {
	w := h.F("fn")
	FT := w.Type().In(0)
	sc := h.Sc
	nf := FT.NumOut()
	for _, variant := range []string{"ok", "outer-fails", "inner-fails"} {
		for ei, inj := range injected {
			if variant == "ok" && ei > 0 {
				continue
			}
			calls := 0
			outs := make([]reflect.Value, nf)
			for j := 0; j < nf-1; j++ {
				outs[j] = argFor(FT.Out(j), j, 1, sc)
			}
			outs[nf-1] = errVal(nil)
			if variant == "inner-fails" {
				outs[nf-1] = errVal(inj)
			}
			f := reflect.MakeFunc(FT, func([]reflect.Value) []reflect.Value { calls++; return outs })
			outer := errVal(nil)
			if variant == "outer-fails" {
				outer = errVal(inj)
			}
			h.St.States++
			h.St.Evals++
			res, pan := Call(w, f, outer)
			if pan != "" {
				h.bad16("panics", pan)
				continue
			}
			n := len(res) - 1
			switch variant {
			case "outer-fails":
				if calls != 0 {
					h.bad16("stage-order", "f called although the error was already set")
				} else if !sameErr(res[n], inj) {
					h.bad16("wrong-error", "the supplied error is not returned")
				} else if i, z := allZero(res[:n]); !z {
					h.bad16("non-zero-result-on-failure", fmt.Sprintf("result %d is %s", i, Show(res[i])))
				}
			case "inner-fails":
				if calls != 1 || !sameErr(res[n], inj) {
					h.bad16("wrong-error", fmt.Sprintf("f called %d times; f's error not returned", calls))
				} else if i, z := allZero(res[:n]); !z {
					// f is the failing stage and hands back non-zero values next to its error
					h.bad16("inner-failure-results-not-zero", fmt.Sprintf("f failed: result %d is %s", i, Show(res[i])))
				}
			default:
				if calls != 1 || !res[n].IsNil() || !eqStrs(canons(res[:n]), canons(outs[:nf-1])) {
					h.bad16("wrong-result", fmt.Sprintf("f called %d times; results differ from f's", calls))
				}
			}
			h.St.Nontriv++
		}
	}
	h.Outcome("join-err")
}

func c16Traverse(h *H) {
	w := h.F("fn")
	FT, LT := w.Type().In(0), w.Type().In(1)
	sc := h.Sc
	maxLen := envInt("VERIF_TRAVLEN", 4)
	for _, spare := range []int{0, 3} {
		for n := -1; n <= maxLen; n++ {
			if n < 0 && spare > 0 {
				continue
			}
			for fail := -1; fail < n || fail < 0; fail++ {
				for ei, inj := range injected {
					if fail < 0 && ei > 0 {
						continue
					}
					var in reflect.Value
					ln := n
					if n < 0 {
						in, ln = reflect.Zero(LT), 0
					} else {
						// spare > 0: a window of a longer backing array whose further elements are not part of the list
						in = reflect.MakeSlice(LT, n+spare, n+spare)
						for i := 0; i < n+spare; i++ {
							in.Index(i).Set(argFor(LT.Elem(), i, 1, sc))
						}
						in = in.Slice(0, n)
					}
					var log []string
					f := reflect.MakeFunc(FT, func(a []reflect.Value) []reflect.Value {
						i := len(log)
						log = append(log, Canon(a[0]))
						if i == fail {
							return []reflect.Value{argFor(FT.Out(0), 9, 1, sc), errVal(inj)}
						}
						return []reflect.Value{argFor(FT.Out(0), i, 0, sc), errVal(nil)}
					})
					h.St.States++
					h.St.Evals++
					res, pan := Call(w, f, in)
					if pan != "" {
						h.bad16("panics", pan, in)
						continue
					}
					wantCalls := ln
					if fail >= 0 {
						wantCalls = fail + 1
					}
					okLog := len(log) == wantCalls
					for i := 0; okLog && i < len(log); i++ {
						okLog = log[i] == Canon(in.Index(i))
					}
					switch {
					case !okLog:
						h.bad16("stage-order", fmt.Sprintf("list of %d, failure at %d: f called %d times / out of order", ln, fail, len(log)), in)
					case fail >= 0 && !sameErr(res[1], inj):
						h.bad16("wrong-error", fmt.Sprintf("list of %d, failure at %d: f's error is not returned", ln, fail), in)
					case fail >= 0 && !res[0].IsNil():
						h.bad16("non-zero-result-on-failure", fmt.Sprintf("list of %d, failure at %d: result %s is not a nil slice", ln, fail, Show(res[0])), in)
					case fail < 0 && !res[1].IsNil():
						h.bad16("wrong-error", "no failure but error not nil", in)
					case fail < 0:
						okv := res[0].Len() == ln
						for i := 0; okv && i < ln; i++ {
							okv = Canon(res[0].Index(i)) == Canon(argFor(FT.Out(0), i, 0, sc))
						}
						if !okv {
							h.bad16("wrong-result", "output is not f applied element-wise", in)
						}
					}
					h.St.Nontriv++
				}
				if fail < 0 && n <= 0 {
					break
				}
			}
		}
	}
	h.Outcome("traverse")
}

func c16ToError(h *H) {
	w := h.F("fn")
	FT := w.Type().In(1)
	sc := h.Sc
	nin, nout := FT.NumIn(), FT.NumOut()
	// every sequence of up to three calls of ONE derived function, f reporting true or
	// false in each (a derived function that is kept and called again is the normal use)
	var seqs [][]bool
	for l := 1; l <= 3; l++ {
		for m := 0; m < 1<<uint(l); m++ {
			q := make([]bool, l)
			for k := range q {
				q[k] = m&(1<<uint(k)) != 0
			}
			seqs = append(seqs, q)
		}
	}
	for _, seq := range seqs {
		for _, inj := range injected {
			calls := 0
			success := false
			var got []string
			outs := make([]reflect.Value, nout)
			f := reflect.MakeFunc(FT, func(a []reflect.Value) []reflect.Value {
				calls++
				got = canons(a)
				for j := 0; j < nout-1; j++ {
					outs[j] = argFor(FT.Out(j), j+calls, 1, sc)
				}
				outs[nout-1] = reflect.ValueOf(success)
				return outs
			})
			r, pan := Call(w, errVal(inj), f)
			if pan != "" {
				h.bad16("panics", pan)
				continue
			}
			for k, sv := range seq {
				success = sv
				in := make([]reflect.Value, nin)
				for j := range in {
					in[j] = argFor(FT.In(j), 4+j+k, 1, sc)
				}
				h.St.States++
				h.St.Evals++
				before := calls
				res, pan := Call(dyn(r[0]), in...)
				if pan != "" {
					h.bad16("panics", pan)
					break
				}
				n := len(res) - 1
				where := ""
				if k > 0 {
					where = fmt.Sprintf(" (call %d of the same derived function, earlier answers of f: %v)", k+1, seq[:k])
				}
				switch {
				case calls != before+1 || !eqStrs(got, canons(in)):
					h.bad16("stage-order", fmt.Sprintf("f called %d times / with other arguments%s", calls-before, where))
				case !eqStrs(canons(res[:n]), canons(outs[:nout-1])):
					h.bad16("wrong-result", "the other results of f are not passed through"+where)
				case sv && !res[n].IsNil():
					h.bad16("wrong-error", "f reported true but the error is not nil"+where)
				case !sv && !sameErr(res[n], inj):
					h.bad16("wrong-error", "f reported false but the supplied error is not returned"+where)
				}
				h.St.Nontriv++
			}
		}
	}
	h.Outcome("toerror")
}
