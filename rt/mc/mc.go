// Package mc is a cooperative scheduler and channel shim for exhaustive
// exploration of goroutine interleavings of (instrumented) Go code.
//
// Real goroutines are used, but exactly one runs at a time; every channel,
// WaitGroup, go and select step is a scheduling point at which the goroutine
// announces its pending operation and parks. Real channel values are used only
// as identities, never operated on.
package mc

import (
	"fmt"
	"hash/fnv"
	"reflect"
	"runtime"
	"sort"
	"strings"
	"sync"
)

type opKind int

const (
	opStart opKind = iota
	opSend
	opRecv
	opClose
	opSelect
	opGo
	opWGAdd
	opWGWait
	opYield
)

func (k opKind) String() string {
	return [...]string{"start", "send", "recv", "close", "select", "go", "wgadd", "wgwait", "yield"}[k]
}

type chanState struct {
	id         string
	cap        int
	buf        []interface{}
	closed     bool
	closeCount int
}

type wgState struct {
	id string
	n  int
}

// SelCase is one case of a select statement.
type SelCase struct {
	send   bool
	ch     *chanState
	val    interface{}
	native reflect.SelectCase // used when not running under the scheduler
}

type op struct {
	kind       opKind
	ch         *chanState
	val        interface{}
	cases      []SelCase
	hasDefault bool
	wg         *wgState
	n          int
	fn         func()
	// results
	rval   interface{}
	rok    bool
	rindex int
}

type resumeMsg struct{ abort bool }

// G is a logical goroutine.
type G struct {
	id                 string
	resume             chan resumeMsg
	op                 *op
	spawnN, makeN, wgN int
	hist               uint64
	done               bool
	fn                 func()
	blockedForever     bool
}

// Chooser picks one of n enabled transitions.
type Chooser interface {
	Choose(n int, describe func(i int) string) int
}

type event struct {
	g     *G
	exit  bool
	panic string
}

// Sched is one controlled execution.
type Sched struct {
	gs      []*G
	cur     *G
	chans   map[uintptr]*chanState
	wgs     map[*sync.WaitGroup]*wgState
	events  chan event
	chooser Chooser
	// outcome
	Panics    []string
	Steps     int
	Trace     []string
	KeepTrace bool
	OnState   func(key string) bool // return false to cut the execution here
	maxSteps  int
}

var cur *Sched

type transition struct {
	g       *G
	caseIdx int // select case (-1 = not a select / default = -2)
	partner *G  // rendezvous partner (receiver)
	pcase   int // partner's select case index (-1 if plain recv)
	desc    string
}

// Result describes how an execution ended.
type Result struct {
	Deadlock bool     // nothing enabled although goroutines remain
	Blocked  []string // goroutines (id: pending op) that never finished
	Panics   []string
	Cut      bool // stopped by OnState (state already explored)
	Steps    int
	StepCap  bool
}

// Run executes main under the scheduler with the given chooser.
func Run(main func(), ch Chooser, onState func(key string) bool, keepTrace bool) (*Sched, Result) {
	s := &Sched{chans: map[uintptr]*chanState{}, wgs: map[*sync.WaitGroup]*wgState{}, events: make(chan event), chooser: ch, OnState: onState, KeepTrace: keepTrace, maxSteps: 100000}
	cur = s
	g0 := s.newG("0", main)
	g0.op = &op{kind: opStart}
	res := s.loop()
	cur = nil
	return s, res
}

func (s *Sched) newG(id string, fn func()) *G {
	g := &G{id: id, resume: make(chan resumeMsg), fn: fn}
	s.gs = append(s.gs, g)
	go func() {
		msg := <-g.resume
		defer func() {
			ev := event{g: g, exit: true}
			if r := recover(); r != nil {
				ev.panic = fmt.Sprint(r)
			}
			g.done = true
			s.events <- ev
		}()
		if msg.abort {
			return
		}
		fn()
	}()
	return g
}

// park is called in goroutine context: announce op and wait to be resumed.
func (s *Sched) park(o *op) *op {
	g := s.cur
	g.op = o
	s.events <- event{g: g}
	msg := <-g.resume
	if msg.abort {
		runtime.Goexit()
	}
	return o
}

func (s *Sched) chanOf(c interface{}) *chanState {
	v := reflect.ValueOf(c)
	if !v.IsValid() || v.Kind() != reflect.Chan || v.IsNil() {
		return nil
	}
	p := v.Pointer()
	st, ok := s.chans[p]
	if !ok {
		// a channel not created through Make: give it an id on first use
		g := s.cur
		st = &chanState{id: fmt.Sprintf("%s/x%d", g.id, g.makeN), cap: v.Cap()}
		g.makeN++
		s.chans[p] = st
	}
	return st
}

func (s *Sched) canon(v interface{}) string {
	rv := reflect.ValueOf(v)
	if rv.IsValid() && rv.Kind() == reflect.Chan {
		if rv.IsNil() {
			return "chan(nil)"
		}
		if st, ok := s.chans[rv.Pointer()]; ok {
			return "chan(" + st.id + ")"
		}
		return "chan(?)"
	}
	if e, ok := v.(error); ok && e != nil {
		return "err(" + e.Error() + ")"
	}
	return fmt.Sprintf("%#v", v)
}

func (s *Sched) note(g *G, parts ...string) {
	h := fnv.New64a()
	fmt.Fprintf(h, "%d|%s", g.hist, strings.Join(parts, "|"))
	g.hist = h.Sum64()
}

// transitions lists the enabled transitions in canonical order.
func (s *Sched) transitions() []transition {
	var ts []transition
	recvWaiters := func(ch *chanState, except *G) [][2]interface{} {
		var out [][2]interface{}
		for _, r := range s.gs {
			if r.done || r.op == nil || r == except {
				continue
			}
			if r.op.kind == opRecv && r.op.ch == ch {
				out = append(out, [2]interface{}{r, -1})
			}
			if r.op.kind == opSelect {
				for i, c := range r.op.cases {
					if !c.send && c.ch == ch {
						out = append(out, [2]interface{}{r, i})
					}
				}
			}
		}
		return out
	}
	sendTs := func(g *G, ch *chanState, caseIdx int, val interface{}) {
		if ch == nil {
			return
		}
		if ch.closed {
			ts = append(ts, transition{g: g, caseIdx: caseIdx, pcase: -1, desc: g.id + ": send on closed " + ch.id})
			return
		}
		if len(ch.buf) < ch.cap {
			ts = append(ts, transition{g: g, caseIdx: caseIdx, pcase: -1, desc: g.id + ": send " + s.canon(val) + " to " + ch.id})
			return
		}
		if len(ch.buf) == 0 {
			for _, w := range recvWaiters(ch, g) {
				r := w[0].(*G)
				ts = append(ts, transition{g: g, caseIdx: caseIdx, partner: r, pcase: w[1].(int), desc: g.id + ": hand " + s.canon(val) + " over " + ch.id + " to " + r.id})
			}
		}
	}
	recvTs := func(g *G, ch *chanState, caseIdx int) {
		if ch == nil {
			return
		}
		if len(ch.buf) > 0 {
			ts = append(ts, transition{g: g, caseIdx: caseIdx, pcase: -1, desc: g.id + ": recv " + s.canon(ch.buf[0]) + " from " + ch.id})
		} else if ch.closed {
			ts = append(ts, transition{g: g, caseIdx: caseIdx, pcase: -1, desc: g.id + ": recv closed " + ch.id})
		}
	}
	for _, g := range s.gs {
		if g.done || g.op == nil {
			continue
		}
		o := g.op
		switch o.kind {
		case opStart:
			ts = append(ts, transition{g: g, caseIdx: -1, pcase: -1, desc: g.id + ": start"})
		case opYield:
			ts = append(ts, transition{g: g, caseIdx: -1, pcase: -1, desc: g.id + ": yield"})
		case opGo:
			ts = append(ts, transition{g: g, caseIdx: -1, pcase: -1, desc: g.id + ": go"})
		case opClose:
			ts = append(ts, transition{g: g, caseIdx: -1, pcase: -1, desc: g.id + ": close " + idOf(o.ch)})
		case opWGAdd:
			ts = append(ts, transition{g: g, caseIdx: -1, pcase: -1, desc: fmt.Sprintf("%s: wg %s add %d", g.id, o.wg.id, o.n)})
		case opWGWait:
			if o.wg.n == 0 {
				ts = append(ts, transition{g: g, caseIdx: -1, pcase: -1, desc: g.id + ": wg " + o.wg.id + " wait returns"})
			}
		case opSend:
			sendTs(g, o.ch, -1, o.val)
		case opRecv:
			recvTs(g, o.ch, -1)
		case opSelect:
			n0 := len(ts)
			for i, c := range o.cases {
				if c.send {
					sendTs(g, c.ch, i, c.val)
				} else {
					recvTs(g, c.ch, i)
				}
			}
			if len(ts) == n0 && o.hasDefault {
				// default is only taken when no case can proceed (rendezvous with a
				// parked sender counts as 'can proceed' and is listed at the sender)
				ready := false
				for _, c := range o.cases {
					if !c.send && c.ch != nil && c.ch.cap == 0 {
						for _, x := range s.gs {
							if !x.done && x.op != nil && x != g && x.op.kind == opSend && x.op.ch == c.ch {
								ready = true
							}
						}
					}
				}
				if !ready {
					ts = append(ts, transition{g: g, caseIdx: -2, pcase: -1, desc: g.id + ": select default"})
				}
			}
		}
	}
	return ts
}

func idOf(c *chanState) string {
	if c == nil {
		return "nil"
	}
	return c.id
}

// fire performs the effect of t on the shim state and returns the goroutines to
// resume (the first one is resumed now, a rendezvous partner becomes runnable
// with a completed operation: it is given a yield-like continuation).
func (s *Sched) fire(t transition) (violation string) {
	g := t.g
	o := g.op
	switch o.kind {
	case opStart, opYield:
		s.note(g, o.kind.String())
	case opGo:
		child := s.newG(fmt.Sprintf("%s.%d", g.id, g.spawnN), o.fn)
		g.spawnN++
		child.op = &op{kind: opStart}
		s.note(g, "go", child.id)
	case opClose:
		if o.ch == nil {
			return "close of nil channel by " + g.id
		}
		o.ch.closeCount++
		if o.ch.closed {
			return "close of closed channel " + o.ch.id + " by " + g.id
		}
		o.ch.closed = true
		s.note(g, "close", o.ch.id)
	case opWGAdd:
		o.wg.n += o.n
		if o.wg.n < 0 {
			return "negative WaitGroup counter " + o.wg.id
		}
		s.note(g, "wgadd", o.wg.id, fmt.Sprint(o.n))
	case opWGWait:
		s.note(g, "wgwait", o.wg.id)
	case opSend, opRecv, opSelect:
		ch, val, send := o.ch, o.val, o.kind == opSend
		if o.kind == opSelect {
			o.rindex = t.caseIdx
			if t.caseIdx == -2 {
				s.note(g, "select-default")
				return ""
			}
			c := o.cases[t.caseIdx]
			ch, val, send = c.ch, c.val, c.send
		}
		if send {
			if ch.closed {
				return "send on closed channel " + ch.id + " by " + g.id
			}
			if t.partner != nil {
				r := t.partner
				ro := r.op
				ro.rval, ro.rok = val, true
				if ro.kind == opSelect {
					ro.rindex = t.pcase
				}
				s.note(r, "recv", ch.id, s.canon(val))
				// the receiver's operation is complete; it is runnable and continues when scheduled
				ro.kind = opStart
			} else {
				ch.buf = append(ch.buf, val)
			}
			s.note(g, "send", ch.id, s.canon(val))
		} else {
			if len(ch.buf) > 0 {
				o.rval, o.rok = ch.buf[0], true
				ch.buf = ch.buf[1:]
			} else {
				o.rval, o.rok = nil, false
			}
			s.note(g, "recv", ch.id, s.canon(o.rval), fmt.Sprint(o.rok))
		}
	}
	return ""
}

// stateKey canonically encodes the global state.
func (s *Sched) stateKey() string {
	var sb strings.Builder
	for _, g := range s.gs {
		if g.done {
			fmt.Fprintf(&sb, "G%s:done:%x;", g.id, g.hist)
			continue
		}
		fmt.Fprintf(&sb, "G%s:%x:", g.id, g.hist)
		if o := g.op; o != nil {
			sb.WriteString(o.kind.String())
			switch o.kind {
			case opSend:
				sb.WriteString(idOf(o.ch) + "=" + s.canon(o.val))
			case opRecv, opClose:
				sb.WriteString(idOf(o.ch))
			case opSelect:
				for _, c := range o.cases {
					sb.WriteString("," + idOf(c.ch))
				}
			case opWGAdd, opWGWait:
				fmt.Fprintf(&sb, "%s/%d", o.wg.id, o.n)
			}
		}
		sb.WriteString(";")
	}
	ids := make([]string, 0, len(s.chans))
	byID := map[string]*chanState{}
	for _, c := range s.chans {
		ids = append(ids, c.id)
		byID[c.id] = c
	}
	sort.Strings(ids)
	for _, id := range ids {
		c := byID[id]
		fmt.Fprintf(&sb, "C%s:%v:", id, c.closed)
		for _, v := range c.buf {
			sb.WriteString(s.canon(v) + ",")
		}
		sb.WriteString(";")
	}
	wids := make([]string, 0, len(s.wgs))
	for _, w := range s.wgs {
		wids = append(wids, fmt.Sprintf("W%s=%d;", w.id, w.n))
	}
	sort.Strings(wids)
	sb.WriteString(strings.Join(wids, ""))
	return sb.String()
}

func (s *Sched) loop() Result {
	res := Result{}
	finish := func() Result {
		// abort every goroutine that is still parked
		for _, g := range s.gs {
			if !g.done {
				res.Blocked = append(res.Blocked, g.id+": "+describeOp(g.op))
				g.resume <- resumeMsg{abort: true}
				<-s.events
			}
		}
		res.Panics = s.Panics
		res.Steps = s.Steps
		return res
	}
	for {
		ts := s.transitions()
		if len(ts) == 0 {
			live := 0
			for _, g := range s.gs {
				if !g.done {
					live++
				}
			}
			if live > 0 {
				res.Deadlock = true
			}
			return finish()
		}
		if s.Steps >= s.maxSteps {
			res.StepCap = true
			return finish()
		}
		i := 0
		if len(ts) > 1 {
			i = s.chooser.Choose(len(ts), func(k int) string { return ts[k].desc })
		}
		t := ts[i]
		s.Steps++
		if s.KeepTrace {
			s.Trace = append(s.Trace, t.desc)
		}
		if v := s.fire(t); v != "" {
			s.Panics = append(s.Panics, v)
			// the offending goroutine panics in Go; the execution ends here
			return finish()
		}
		// run the chosen goroutine until it parks again or exits
		g := t.g
		s.cur = g
		g.op = nil
		g.resume <- resumeMsg{}
		ev := <-s.events
		if ev.exit {
			if ev.panic != "" {
				s.Panics = append(s.Panics, "panic in goroutine "+ev.g.id+": "+ev.panic)
				return finish()
			}
		}
		if s.OnState != nil {
			if !s.OnState(s.stateKey()) {
				res.Cut = true
				return finish()
			}
		}
	}
}

func describeOp(o *op) string {
	if o == nil {
		return "running"
	}
	switch o.kind {
	case opSend:
		return "blocked sending on " + idOf(o.ch)
	case opRecv:
		return "blocked receiving from " + idOf(o.ch)
	case opSelect:
		var cs []string
		for _, c := range o.cases {
			cs = append(cs, idOf(c.ch))
		}
		return "blocked in select on " + strings.Join(cs, ",")
	case opWGWait:
		return "blocked in WaitGroup.Wait " + o.wg.id
	}
	return "runnable (" + o.kind.String() + ")"
}
