package mc

import (
	"fmt"
	"time"
)

// Scenario builds a fresh instance: main is run under the scheduler, check is
// the oracle evaluated on the terminal state of every complete execution.
type Scenario func() (main func(), check func(r Result) []string)

// Report is the outcome of exploring one scenario exhaustively.
type Report struct {
	Name        string
	Executions  int
	States      int
	Transitions int
	Terminal    int
	MaxDepth    int
	Violations  []Violation
	Exhaustive  bool
	Cap         string
	Outcomes    map[string]int
	WallS       float64
}

// Violation is one failing execution with its schedule.
type Violation struct {
	What     string
	Schedule []int
	Trace    []string
}

type dfsChooser struct {
	prefix   []int
	choices  []int
	ns       []int
	diverged bool
}

func (c *dfsChooser) Choose(n int, _ func(int) string) int {
	i := len(c.choices)
	ch := 0
	if i < len(c.prefix) {
		ch = c.prefix[i]
		if ch >= n {
			c.diverged = true
			ch = 0
		}
	}
	c.choices = append(c.choices, ch)
	c.ns = append(c.ns, n)
	return ch
}

// Explore runs the stateless DFS with state-hash pruning.
func Explore(name string, sc Scenario, maxStates int, deadline time.Time) Report {
	t0 := time.Now()
	rep := Report{Name: name, Exhaustive: true, Outcomes: map[string]int{}}
	visited := map[string]struct{}{}
	seenViol := map[string]bool{}
	var dfs func(prefix []int)
	dfs = func(prefix []int) {
		if rep.Cap != "" {
			return
		}
		if len(visited) >= maxStates {
			rep.Cap, rep.Exhaustive = fmt.Sprintf("state cap %d", maxStates), false
			return
		}
		if time.Now().After(deadline) {
			rep.Cap, rep.Exhaustive = "time budget", false
			return
		}
		main, check := sc()
		ch := &dfsChooser{prefix: prefix}
		onState := func(key string) bool {
			if len(ch.choices) < len(prefix) {
				return true // still replaying the path that led here
			}
			rep.Transitions++
			if _, ok := visited[key]; ok {
				return false
			}
			visited[key] = struct{}{}
			return true
		}
		_, res := Run(main, ch, onState, false)
		rep.Executions++
		if ch.diverged {
			rep.Violations = append(rep.Violations, Violation{What: "HARNESS: replay diverged (nondeterminism outside the scheduler)", Schedule: prefix})
			rep.Cap, rep.Exhaustive = "divergence", false
			return
		}
		if len(ch.choices) > rep.MaxDepth {
			rep.MaxDepth = len(ch.choices)
		}
		if !res.Cut {
			rep.Terminal++
			var probs []string
			for _, p := range res.Panics {
				probs = append(probs, "panic: "+p)
			}
			if res.StepCap {
				probs = append(probs, "HARNESS: step cap reached (livelock?)")
			}
			probs = append(probs, check(res)...)
			oc := "ok"
			if len(probs) > 0 {
				oc = probs[0]
			}
			rep.Outcomes[oc]++
			for _, p := range probs {
				if !seenViol[p] {
					seenViol[p] = true
					// re-run the schedule with tracing (and as the replay-determinism check)
					main2, check2 := sc()
					ch2 := &dfsChooser{prefix: ch.choices}
					s2, res2 := Run(main2, ch2, nil, true)
					again := append([]string{}, check2(res2)...)
					for _, q := range res2.Panics {
						again = append(again, "panic: "+q)
					}
					same := false
					for _, q := range again {
						if q == p {
							same = true
						}
					}
					if !same {
						p = "HARNESS: violation not reproduced on replay: " + p
					}
					rep.Violations = append(rep.Violations, Violation{What: p, Schedule: append([]int(nil), ch.choices...), Trace: s2.Trace})
				}
			}
		}
		for i := len(prefix); i < len(ch.choices); i++ {
			for alt := 1; alt < ch.ns[i]; alt++ {
				dfs(append(append([]int(nil), ch.choices[:i]...), alt))
			}
		}
	}
	dfs(nil)
	rep.States = len(visited)
	rep.WallS = time.Since(t0).Seconds()
	return rep
}

// Replay runs one recorded schedule (no exploration) and returns the trace and
// the oracle's verdict.
func Replay(sc Scenario, schedule []int) (trace []string, problems []string, diverged bool) {
	main, check := sc()
	ch := &dfsChooser{prefix: schedule}
	s, res := Run(main, ch, nil, true)
	for _, p := range res.Panics {
		problems = append(problems, "panic: "+p)
	}
	problems = append(problems, check(res)...)
	return s.Trace, problems, ch.diverged
}
