package mc

import (
	"sync"
	"testing"
	"time"
)

// join of two inputs, hand written in shim calls; buggy = close before wait
func joinScenario(buggy bool) Scenario {
	return func() (func(), func(Result) []string) {
		var got []int
		closedSeen := false
		main := func() {
			a, b := Make[int](0), Make[int](0)
			out := Make[int](0)
			Go(func() { Send(a, 1); Send(a, 2); Close(a) })
			Go(func() { Send(b, 10); Close(b) })
			Go(func() {
				var wait sync.WaitGroup
				for _, c := range []chan int{a, b} {
					if !buggy {
						WGAdd(&wait, 1)
					}
					res := c
					Go(func() {
						if buggy {
							WGAdd(&wait, 1)
						}
						for {
							r, ok := Recv(res)
							if !ok {
								break
							}
							Send(out, r)
						}
						WGAdd(&wait, -1)
					})
				}
				WGWait(&wait)
				Close(out)
			})
			for {
				v, ok := Recv(out)
				if !ok {
					closedSeen = true
					break
				}
				got = append(got, v)
			}
		}
		check := func(r Result) []string {
			var p []string
			if r.Deadlock {
				p = append(p, "deadlock")
			}
			if len(r.Blocked) > 0 {
				p = append(p, "blocked goroutines")
			}
			if len(got) != 3 || !closedSeen {
				p = append(p, "lost items")
			}
			return p
		}
		return main, check
	}
}

func TestJoinCorrect(t *testing.T) {
	rep := Explore("join", joinScenario(false), 1000000, time.Now().Add(time.Minute))
	t.Logf("executions=%d states=%d transitions=%d terminal=%d outcomes=%v wall=%.2fs", rep.Executions, rep.States, rep.Transitions, rep.Terminal, rep.Outcomes, rep.WallS)
	if len(rep.Violations) != 0 || !rep.Exhaustive {
		t.Fatalf("unexpected: %+v", rep.Violations)
	}
}

func TestJoinBuggy(t *testing.T) {
	rep := Explore("join-buggy", joinScenario(true), 1000000, time.Now().Add(time.Minute))
	t.Logf("executions=%d states=%d outcomes=%v", rep.Executions, rep.States, rep.Outcomes)
	if len(rep.Violations) == 0 {
		t.Fatal("bug not found")
	}
	t.Logf("first violation: %s schedule=%v\n%v", rep.Violations[0].What, rep.Violations[0].Schedule, rep.Violations[0].Trace)
}
