package mc

import (
	"fmt"
	"os"
	"reflect"
	"runtime"
	"strconv"
	"sync"
)

// Active reports whether code runs under the scheduler.
func Active() bool { return cur != nil }

// Make creates a channel registered with a canonical identity.
func Make[T any](n int) chan T {
	c := make(chan T, n)
	if s := cur; s != nil {
		g := s.cur
		s.chans[reflect.ValueOf(c).Pointer()] = &chanState{id: fmt.Sprintf("%s/c%d", g.id, g.makeN), cap: n}
		g.makeN++
	}
	return c
}

// Send is `c <- v`.
func Send[T any](c chan<- T, v T) {
	if cur == nil {
		c <- v
		return
	}
	s := cur
	s.park(&op{kind: opSend, ch: s.chanOf(c), val: v})
}

func conv[T any](v interface{}) T {
	if v == nil {
		var z T
		return z
	}
	return v.(T)
}

// Recv is `v, ok := <-c`.
func Recv[T any](c <-chan T) (T, bool) {
	if cur == nil {
		v, ok := <-c
		return v, ok
	}
	s := cur
	o := s.park(&op{kind: opRecv, ch: s.chanOf(c)})
	return conv[T](o.rval), o.rok
}

// Recv1 is `<-c` used as a value.
func Recv1[T any](c <-chan T) T {
	v, _ := Recv(c)
	return v
}

// Close is close(c).
func Close[T any](c chan<- T) {
	if cur == nil {
		close(c)
		return
	}
	s := cur
	s.park(&op{kind: opClose, ch: s.chanOf(c)})
}

// Go is `go f()`.
func Go(f func()) {
	if cur == nil {
		go f()
		return
	}
	s := cur
	s.park(&op{kind: opGo, fn: f})
}

// Yield is a pure scheduling point.
func Yield() {
	if cur == nil {
		runtime.Gosched()
		return
	}
	s := cur
	s.park(&op{kind: opYield})
}

// RecvCase / SendCase build select cases.
func RecvCase[T any](c <-chan T) SelCase {
	if cur == nil {
		return SelCase{native: reflect.SelectCase{Dir: reflect.SelectRecv, Chan: reflect.ValueOf(c)}}
	}
	return SelCase{ch: cur.chanOf(c)}
}
func SendCase[T any](c chan<- T, v T) SelCase {
	if cur == nil {
		return SelCase{send: true, native: reflect.SelectCase{Dir: reflect.SelectSend, Chan: reflect.ValueOf(c), Send: reflect.ValueOf(v)}}
	}
	return SelCase{send: true, ch: cur.chanOf(c), val: v}
}

// Sel is the outcome of a select.
type Sel struct {
	Index int // chosen case; len(cases) for default
	val   interface{}
	ok    bool
}

// Select performs a select over the cases.
func Select(hasDefault bool, cases ...SelCase) *Sel {
	if cur == nil {
		var nc []reflect.SelectCase
		for _, c := range cases {
			nc = append(nc, c.native)
		}
		if hasDefault {
			nc = append(nc, reflect.SelectCase{Dir: reflect.SelectDefault})
		}
		i, v, ok := reflect.Select(nc)
		sel := &Sel{Index: i, ok: ok}
		if v.IsValid() {
			sel.val = v.Interface()
		}
		return sel
	}
	s := cur
	o := s.park(&op{kind: opSelect, cases: cases, hasDefault: hasDefault})
	idx := o.rindex
	if idx == -2 {
		idx = len(cases)
	}
	return &Sel{Index: idx, val: o.rval, ok: o.rok}
}

// SelRecv yields what the chosen receive case received.
func SelRecv[T any](s *Sel, _ <-chan T) (T, bool) { return conv[T](s.val), s.ok }

func (s *Sched) wgOf(w *sync.WaitGroup) *wgState {
	st, ok := s.wgs[w]
	if !ok {
		g := s.cur
		st = &wgState{id: fmt.Sprintf("%s/w%d", g.id, g.wgN)}
		g.wgN++
		s.wgs[w] = st
	}
	return st
}

// WGAdd is wg.Add(n) (Done is Add(-1)); WGWait is wg.Wait().
func WGAdd(w *sync.WaitGroup, n int) {
	if cur == nil {
		w.Add(n)
		return
	}
	s := cur
	s.park(&op{kind: opWGAdd, wg: s.wgOf(w), n: n})
}

func WGWait(w *sync.WaitGroup) {
	if cur == nil {
		w.Wait()
		return
	}
	s := cur
	s.park(&op{kind: opWGWait, wg: s.wgOf(w)})
}

// Len is len(c) for a channel.
func Len[T any](c <-chan T) int {
	if cur == nil {
		return len(c)
	}
	// len of a channel reads shared state: a scheduling step of its own, and what it
	// answered is part of what the goroutine has observed
	s := cur
	s.park(&op{kind: opYield})
	n := 0
	if st := s.chanOf(c); st != nil {
		n = len(st.buf)
	}
	s.note(s.cur, "len", fmt.Sprintf("%d", n))
	return n
}

// --- harness-side queries (not scheduling points) ---

// CloseCount says how often close was called on c.
func CloseCount[T any](c <-chan T) int {
	if cur == nil {
		return 1 // not observable on the native runtime (a second close panics)
	}
	if st := cur.chanOf(c); st != nil {
		return st.closeCount
	}
	return 0
}

// IsClosed reports whether c is closed.
func IsClosed[T any](c <-chan T) bool {
	if cur == nil {
		return false
	}
	if st := cur.chanOf(c); st != nil {
		return st.closed
	}
	return false
}

// Atomic performs a sync/atomic operation as one scheduling step; the value it
// returns becomes part of the goroutine's observation history.
func Atomic[T any](f func() T) T {
	if cur == nil {
		return f()
	}
	s := cur
	o := s.park(&op{kind: opYield, fn: nil})
	_ = o
	v := f()
	s.note(s.cur, "atomic", fmt.Sprintf("%v", v))
	return v
}

// Atomic0 is Atomic for operations without a result.
func Atomic0(f func()) {
	if cur == nil {
		f()
		return
	}
	s := cur
	s.park(&op{kind: opYield})
	f()
	s.note(s.cur, "atomic0")
}

// procs is what runtime.GOMAXPROCS(0) / runtime.NumCPU() answer in instrumented
// code: VERIF_PROCS when set, the real value otherwise.
var procs = func() int {
	if n, err := strconv.Atoi(os.Getenv("VERIF_PROCS")); err == nil && n > 0 {
		return n
	}
	return runtime.GOMAXPROCS(0)
}()

// Procs stands in for runtime.GOMAXPROCS(n) and runtime.NumCPU().
func Procs() int { return procs }
