package rt

import (
	"bufio"
	"encoding/json"
	"fmt"
	"os"
	"reflect"
)

func init() {
	props["C06"] = propC06
}

// GS is the stage-1 record of C06: the text produced for pool value I.
type GS struct {
	K     string `json:"k"` // "gs"
	Case  string `json:"case"`
	I     int    `json:"i"`
	Text  string `json:"text"`
	Canon string `json:"canon"`
	Show  string `json:"show"`
	GoT   string `json:"got"`
}

func propC06(h *H) {
	gs := h.F("gostring")
	gens := Pool(h.T, h.Sc)
	h.St.Pool = len(gens)
	for i, g := range gens {
		x := g()
		h.St.States++
		res, pan := Call(gs, x)
		h.St.Evals++
		if pan != "" {
			h.Violation("gostring-panics", typeShapeKey(h.T), pan, x)
			continue
		}
		h.out.Encode(GS{K: "gs", Case: h.C.ID, I: i, Text: res[0].String(), Canon: Canon(x), Show: Show(x), GoT: h.T.String()})
		if h.St.Sample == "" && i == len(gens)-1 {
			h.St.Sample = fmt.Sprintf("GoString(%s) = %q", Show(x), res[0].String())
		}
	}
}

// Entry is one expression compiled into the stage-2 program.
type Entry struct {
	Case string
	I    int
	F    func() interface{}
}

// Stage2 evaluates the compiled GoString texts and compares every value with
// the pool value it was printed from (rebuilt deterministically) and with the
// canonical encoding shipped from stage 1.
func Stage2(cases []Case, entries []Entry, shipped map[string]string) {
	w := bufio.NewWriter(os.Stdout)
	defer w.Flush()
	enc := json.NewEncoder(w)
	byID := map[string]Case{}
	for _, c := range cases {
		byID[c.ID] = c
	}
	sc := Scope{Vmax: envInt("VERIF_VMAX", 24), ElemK: envInt("VERIF_ELEMK", 3), Fuel: envInt("VERIF_FUEL", 4), Text: true}
	pools := map[string][]Gen{}
	for _, e := range entries {
		c := byID[e.Case]
		t := reflect.TypeOf(c.Zero).Elem()
		if _, ok := pools[e.Case]; !ok {
			pools[e.Case] = Pool(t, sc)
		}
		orig := pools[e.Case][e.I]()
		rec := map[string]interface{}{"k": "s2", "case": e.Case, "i": e.I, "type": c.Type}
		func() {
			defer func() {
				if r := recover(); r != nil {
					rec["panic"] = fmt.Sprint(r)
				}
			}()
			v := e.F()
			if v == nil {
				rec["verdict"] = "untyped-nil"
				return
			}
			got := reflect.ValueOf(v)
			if got.Type() != t {
				rec["verdict"] = "type-differs"
				rec["detail"] = fmt.Sprintf("expression has type %s, original %s", got.Type(), t)
				return
			}
			oc := Canon(orig)
			if ship := shipped[fmt.Sprintf("%s#%d", e.Case, e.I)]; ship != oc {
				rec["verdict"] = "harness-error"
				rec["detail"] = "rebuilt pool value differs from the one stage 1 printed"
				return
			}
			if Canon(got) == oc {
				rec["verdict"] = "ok"
				return
			}
			d := Diff(got, orig)
			rec["verdict"] = "value-differs"
			rec["key"] = fmt.Sprintf("%s|%s|%s", d.Kind, d.Type, d.Ctx)
			rec["detail"] = fmt.Sprintf("evaluated %s, original %s; first difference at %q (%s)", Show(got), Show(orig), d.Path, d.Kind)
		}()
		enc.Encode(rec)
	}
}
