// Package rt is the runtime library linked into every generated harness.
// It contains the boring, reflection based reference models: canonical
// encoding, structural equality, reference order, memory graph walker,
// value pools and the oracles for the E1 properties.
package rt

import (
	"fmt"
	"math"
	"reflect"
	"sort"
	"strconv"
	"strings"
	"unsafe"
)

// access returns a settable/readable view of v even if it was obtained
// through an unexported field.
func access(v reflect.Value) reflect.Value {
	if v.CanInterface() {
		return v
	}
	if v.CanAddr() {
		return reflect.NewAt(v.Type(), unsafe.Pointer(v.UnsafeAddr())).Elem()
	}
	// not addressable: copy through a fresh addressable cell is impossible
	// without Interface(); callers always hand us addressable roots.
	panic("rt: unaddressable unexported value of type " + v.Type().String())
}

// Addressable returns an addressable copy of v (shallow).
func Addressable(v reflect.Value) reflect.Value {
	if v.CanAddr() {
		return v
	}
	p := reflect.New(v.Type())
	p.Elem().Set(v)
	return p.Elem()
}

// Canon is a canonical structural encoding of a value: kind, nil flag,
// length, children; map entries sorted by canonical key. Pointer identity,
// capacity and map insertion order are not part of it.
func Canon(v reflect.Value) string {
	var sb strings.Builder
	canon(&sb, Addressable(v))
	return sb.String()
}

func canon(sb *strings.Builder, v reflect.Value) {
	v = access(v)
	switch v.Kind() {
	case reflect.Bool:
		if v.Bool() {
			sb.WriteString("T")
		} else {
			sb.WriteString("F")
		}
	case reflect.Int, reflect.Int8, reflect.Int16, reflect.Int32, reflect.Int64:
		sb.WriteString("i" + strconv.FormatInt(v.Int(), 10))
	case reflect.Uint, reflect.Uint8, reflect.Uint16, reflect.Uint32, reflect.Uint64, reflect.Uintptr:
		sb.WriteString("u" + strconv.FormatUint(v.Uint(), 10))
	case reflect.Float32, reflect.Float64:
		f := v.Float()
		if f == 0 {
			f = 0 // +0 and -0 are the same value under ==
		}
		sb.WriteString("f" + strconv.FormatFloat(f, 'g', -1, 64))
	case reflect.Complex64, reflect.Complex128:
		c := v.Complex()
		r, i := real(c), imag(c)
		if r == 0 {
			r = 0
		}
		if i == 0 {
			i = 0
		}
		sb.WriteString("c" + strconv.FormatFloat(r, 'g', -1, 64) + "," + strconv.FormatFloat(i, 'g', -1, 64))
	case reflect.String:
		sb.WriteString("s" + strconv.Quote(v.String()))
	case reflect.Ptr:
		if v.IsNil() {
			sb.WriteString("P0")
			return
		}
		sb.WriteString("P1(")
		canon(sb, v.Elem())
		sb.WriteString(")")
	case reflect.Slice:
		if v.IsNil() {
			sb.WriteString("S0")
			return
		}
		sb.WriteString("S" + strconv.Itoa(v.Len()) + "[")
		for i := 0; i < v.Len(); i++ {
			canon(sb, v.Index(i))
			sb.WriteString(";")
		}
		sb.WriteString("]")
	case reflect.Array:
		sb.WriteString("A" + strconv.Itoa(v.Len()) + "[")
		for i := 0; i < v.Len(); i++ {
			canon(sb, v.Index(i))
			sb.WriteString(";")
		}
		sb.WriteString("]")
	case reflect.Map:
		if v.IsNil() {
			sb.WriteString("M0")
			return
		}
		type kv struct{ k, v string }
		var es []kv
		it := v.MapRange()
		for it.Next() {
			es = append(es, kv{Canon(it.Key()), Canon(it.Value())})
		}
		sort.Slice(es, func(i, j int) bool { return es[i].k < es[j].k })
		sb.WriteString("M" + strconv.Itoa(len(es)) + "{")
		for _, e := range es {
			sb.WriteString(e.k + ":" + e.v + ";")
		}
		sb.WriteString("}")
	case reflect.Struct:
		sb.WriteString("{")
		for i := 0; i < v.NumField(); i++ {
			canon(sb, v.Field(i))
			sb.WriteString(";")
		}
		sb.WriteString("}")
	case reflect.Interface:
		if v.IsNil() {
			sb.WriteString("I0")
			return
		}
		sb.WriteString("I(" + v.Elem().Type().String() + ":")
		canon(sb, Addressable(v.Elem()))
		sb.WriteString(")")
	default:
		panic("rt.Canon: unsupported kind " + v.Kind().String())
	}
}

// userMethod looks for a method `name` with one parameter and one result of
// kind res on t or *t.
func userMethod(t reflect.Type, name string, res reflect.Kind) (reflect.Method, bool, bool) {
	if t.Kind() == reflect.Ptr || t.Name() == "" {
		return reflect.Method{}, false, false
	}
	for _, recvPtr := range []bool{false, true} {
		rt := t
		if recvPtr {
			rt = reflect.PtrTo(t)
		}
		m, ok := rt.MethodByName(name)
		if !ok {
			continue
		}
		if m.Type.NumIn() != 2 || m.Type.NumOut() != 1 || m.Type.Out(0).Kind() != res {
			continue
		}
		return m, true, recvPtr
	}
	return reflect.Method{}, false, false
}

// HasUserMethod reports whether a value of type t anywhere below (or at,
// when !rootOnlyBelow) the root has a user Equal/Compare method.
func HasUserMethod(t reflect.Type, name string, res reflect.Kind) bool {
	return hasUserMethod(t, name, res, map[reflect.Type]bool{})
}

func hasUserMethod(t reflect.Type, name string, res reflect.Kind, seen map[reflect.Type]bool) bool {
	if seen[t] {
		return false
	}
	seen[t] = true
	if _, ok, _ := userMethod(t, name, res); ok {
		return true
	}
	switch t.Kind() {
	case reflect.Ptr, reflect.Slice, reflect.Array:
		return hasUserMethod(t.Elem(), name, res, seen)
	case reflect.Map:
		return hasUserMethod(t.Key(), name, res, seen) || hasUserMethod(t.Elem(), name, res, seen)
	case reflect.Struct:
		for i := 0; i < t.NumField(); i++ {
			if hasUserMethod(t.Field(i).Type, name, res, seen) {
				return true
			}
		}
	}
	return false
}

func callUser(m reflect.Method, recvPtr bool, x, y reflect.Value) reflect.Value {
	x, y = Addressable(access(x)), Addressable(access(y))
	var recv reflect.Value
	if recvPtr {
		recv = x.Addr()
	} else {
		recv = x
	}
	pt := m.Type.In(1)
	var arg reflect.Value
	switch {
	case pt == y.Type():
		arg = y
	case pt.Kind() == reflect.Ptr && pt.Elem() == y.Type():
		arg = y.Addr()
	case pt.Kind() == reflect.Interface:
		arg = y.Addr()
	default:
		panic("rt: user method with unexpected parameter type " + pt.String())
	}
	return m.Func.Call([]reflect.Value{recv, arg})[0]
}

// RefEqual is the structural equality reference. When useMethods is set, a
// component (anything below the root) whose named type declares Equal is
// decided by that method, as the property states.
func RefEqual(x, y reflect.Value, useMethods bool) bool {
	return refEqual(Addressable(x), Addressable(y), useMethods, true)
}

// RefEqualRootMethod is RefEqual but lets the root argument's own Equal
// method decide as well (as if the root were a component).
func RefEqualRootMethod(x, y reflect.Value) bool {
	return refEqual(Addressable(x), Addressable(y), true, false)
}

func refEqual(x, y reflect.Value, um, root bool) bool {
	x, y = access(x), access(y)
	t := x.Type()
	if um && !root {
		if m, ok, rp := userMethod(t, "Equal", reflect.Bool); ok {
			return callUser(m, rp, x, y).Bool()
		}
	}
	switch x.Kind() {
	case reflect.Bool:
		return x.Bool() == y.Bool()
	case reflect.Int, reflect.Int8, reflect.Int16, reflect.Int32, reflect.Int64:
		return x.Int() == y.Int()
	case reflect.Uint, reflect.Uint8, reflect.Uint16, reflect.Uint32, reflect.Uint64, reflect.Uintptr:
		return x.Uint() == y.Uint()
	case reflect.Float32, reflect.Float64:
		return x.Float() == y.Float()
	case reflect.Complex64, reflect.Complex128:
		return x.Complex() == y.Complex()
	case reflect.String:
		return x.String() == y.String()
	case reflect.Ptr:
		if x.IsNil() || y.IsNil() {
			return x.IsNil() && y.IsNil()
		}
		return refEqual(x.Elem(), y.Elem(), um, false)
	case reflect.Slice:
		if x.IsNil() || y.IsNil() {
			return x.IsNil() && y.IsNil()
		}
		if x.Len() != y.Len() {
			return false
		}
		for i := 0; i < x.Len(); i++ {
			if !refEqual(x.Index(i), y.Index(i), um, false) {
				return false
			}
		}
		return true
	case reflect.Array:
		for i := 0; i < x.Len(); i++ {
			if !refEqual(x.Index(i), y.Index(i), um, false) {
				return false
			}
		}
		return true
	case reflect.Map:
		if x.IsNil() || y.IsNil() {
			return x.IsNil() && y.IsNil()
		}
		if x.Len() != y.Len() {
			return false
		}
		it := x.MapRange()
		for it.Next() {
			yv := y.MapIndex(it.Key())
			if !yv.IsValid() {
				return false
			}
			if !refEqual(Addressable(it.Value()), Addressable(yv), um, false) {
				return false
			}
		}
		return true
	case reflect.Struct:
		for i := 0; i < x.NumField(); i++ {
			if !refEqual(x.Field(i), y.Field(i), um, false) {
				return false
			}
		}
		return true
	}
	panic("rt.RefEqual: unsupported kind " + x.Kind().String())
}

// DiffInfo describes the first structural difference between two values.
type DiffInfo struct {
	cur   []reflect.Type
	Count int            // number of differing positions (leafs / nil-ness / len)
	Path  string         // path of the first
	Type  string         // static type at the first differing position
	Kind  string         // nilness-ptr, nil-vs-empty, nil-vs-nonempty, len, leaf-<kind>, float-zero-sign (bitwise only), keyset
	Sign  int            // natural order of x vs y at that position (-1/+1), 0 when undefined (keyset)
	Ctx   string         // root, field, elem, mapval, ptr
	TPath []reflect.Type // static types from the root down to the first differing position
}

// typeName gives the key spelling of a type: every slice whose element type
// is exactly uint8 is spelled []byte whatever its name (the generator's
// bytes.Equal / bytes.Compare shortcut looks at exactly that).
func typeName(t reflect.Type) string {
	if t.Kind() == reflect.Slice && t.Elem() == reflect.TypeOf(uint8(0)) {
		return "[]byte"
	}
	return t.String()
}

// MethodParent returns the type enclosing the innermost component on the path
// to the first difference that declares the user method, or "".
func (d DiffInfo) MethodParent(name string, res reflect.Kind) string {
	for i := len(d.TPath) - 1; i >= 1; i-- {
		if _, ok, _ := userMethod(d.TPath[i], name, res); ok {
			return d.TPath[i-1].String()
		}
	}
	return ""
}

// Diff walks x and y in parallel (structurally, no user methods).
func Diff(x, y reflect.Value) DiffInfo {
	d := &DiffInfo{}
	diff(d, Addressable(x), Addressable(y), "", "root")
	return *d
}

func (d *DiffInfo) note(path, typ, kind, ctx string, sign int) {
	if d.Count == 0 {
		d.Path, d.Type, d.Kind, d.Ctx, d.Sign = path, typ, kind, ctx, sign
		d.TPath = append([]reflect.Type(nil), d.cur...)
	}
	d.Count++
}

func sgnInt(a, b int64) int {
	if a < b {
		return -1
	}
	if a > b {
		return 1
	}
	return 0
}

func sgnF(a, b float64) int {
	if a < b {
		return -1
	}
	if a > b {
		return 1
	}
	return 0
}

func diff(d *DiffInfo, x, y reflect.Value, path, ctx string) {
	x, y = access(x), access(y)
	ts := typeName(x.Type())
	d.cur = append(d.cur, x.Type())
	defer func() { d.cur = d.cur[:len(d.cur)-1] }()
	switch x.Kind() {
	case reflect.Bool:
		if x.Bool() != y.Bool() {
			s := -1
			if x.Bool() {
				s = 1
			}
			d.note(path, ts, "leaf-bool", ctx, s)
		}
	case reflect.Int, reflect.Int8, reflect.Int16, reflect.Int32, reflect.Int64:
		if x.Int() != y.Int() {
			d.note(path, ts, "leaf-int", ctx, sgnInt(x.Int(), y.Int()))
		}
	case reflect.Uint, reflect.Uint8, reflect.Uint16, reflect.Uint32, reflect.Uint64, reflect.Uintptr:
		if x.Uint() != y.Uint() {
			s := -1
			if x.Uint() > y.Uint() {
				s = 1
			}
			d.note(path, ts, "leaf-uint", ctx, s)
		}
	case reflect.Float32, reflect.Float64:
		if x.Float() != y.Float() {
			d.note(path, ts, "leaf-float", ctx, sgnF(x.Float(), y.Float()))
		}
	case reflect.Complex64, reflect.Complex128:
		a, b := x.Complex(), y.Complex()
		if a != b {
			s := sgnF(real(a), real(b))
			if s == 0 {
				s = sgnF(imag(a), imag(b))
			}
			d.note(path, ts, "leaf-complex", ctx, s)
		}
	case reflect.String:
		if x.String() != y.String() {
			d.note(path, ts, "leaf-string", ctx, strings.Compare(x.String(), y.String()))
		}
	case reflect.Ptr:
		if x.IsNil() != y.IsNil() {
			s := 1
			if x.IsNil() {
				s = -1
			}
			d.note(path, ts, "nilness-ptr", ctx, s)
			return
		}
		if !x.IsNil() {
			diff(d, x.Elem(), y.Elem(), path+".*", "ptr")
		}
	case reflect.Slice:
		if x.IsNil() != y.IsNil() {
			s := 1
			if x.IsNil() {
				s = -1
			}
			k := "nil-vs-empty"
			if x.Len()+y.Len() > 0 {
				k = "nil-vs-nonempty"
			}
			d.note(path, ts, k, ctx, s)
			return
		}
		if x.Len() != y.Len() {
			d.note(path, ts, "len", ctx, sgnInt(int64(x.Len()), int64(y.Len())))
			return
		}
		for i := 0; i < x.Len(); i++ {
			diff(d, x.Index(i), y.Index(i), path+"["+strconv.Itoa(i)+"]", "elem")
		}
	case reflect.Array:
		for i := 0; i < x.Len(); i++ {
			diff(d, x.Index(i), y.Index(i), path+"["+strconv.Itoa(i)+"]", "elem")
		}
	case reflect.Map:
		if x.IsNil() != y.IsNil() {
			s := 1
			if x.IsNil() {
				s = -1
			}
			k := "nil-vs-empty"
			if x.Len()+y.Len() > 0 {
				k = "nil-vs-nonempty"
			}
			d.note(path, ts, k, ctx, s)
			return
		}
		if x.Len() != y.Len() {
			d.note(path, ts, "len", ctx, sgnInt(int64(x.Len()), int64(y.Len())))
			return
		}
		// same length: compare key sets
		keys := x.MapKeys()
		sort.Slice(keys, func(i, j int) bool { return Canon(keys[i]) < Canon(keys[j]) })
		for _, k := range keys {
			yv := y.MapIndex(k)
			if !yv.IsValid() {
				d.note(path, ts, "keyset", ctx, 0)
				return
			}
		}
		for _, k := range keys {
			diff(d, Addressable(x.MapIndex(k)), Addressable(y.MapIndex(k)), path+"["+Show(k)+"]", "mapval")
		}
	case reflect.Struct:
		for i := 0; i < x.NumField(); i++ {
			diff(d, x.Field(i), y.Field(i), path+"."+x.Type().Field(i).Name, "field")
		}
	default:
		panic("rt.Diff: unsupported kind " + x.Kind().String())
	}
}

// Show prints a value in a Go-like syntax, following pointers.
func Show(v reflect.Value) string {
	var sb strings.Builder
	show(&sb, Addressable(v), 0)
	return sb.String()
}

func show(sb *strings.Builder, v reflect.Value, depth int) {
	v = access(v)
	if depth > 12 {
		sb.WriteString("…")
		return
	}
	t := v.Type()
	switch v.Kind() {
	case reflect.Bool:
		fmt.Fprintf(sb, "%v", v.Bool())
	case reflect.Int, reflect.Int8, reflect.Int16, reflect.Int32, reflect.Int64:
		fmt.Fprintf(sb, "%d", v.Int())
	case reflect.Uint, reflect.Uint8, reflect.Uint16, reflect.Uint32, reflect.Uint64, reflect.Uintptr:
		fmt.Fprintf(sb, "%d", v.Uint())
	case reflect.Float32, reflect.Float64:
		f := v.Float()
		if f == 0 && math.Signbit(f) {
			sb.WriteString("-0.0")
		} else {
			fmt.Fprintf(sb, "%v", f)
		}
	case reflect.Complex64, reflect.Complex128:
		fmt.Fprintf(sb, "%v", v.Complex())
	case reflect.String:
		sb.WriteString(strconv.Quote(v.String()))
	case reflect.Ptr:
		if v.IsNil() {
			sb.WriteString("nil")
			return
		}
		sb.WriteString("&")
		show(sb, v.Elem(), depth+1)
	case reflect.Slice:
		if v.IsNil() {
			sb.WriteString(t.String() + "(nil)")
			return
		}
		sb.WriteString(t.String() + "{")
		for i := 0; i < v.Len(); i++ {
			if i > 0 {
				sb.WriteString(", ")
			}
			show(sb, v.Index(i), depth+1)
		}
		sb.WriteString("}")
		if v.Cap() != v.Len() {
			fmt.Fprintf(sb, "/*cap %d*/", v.Cap())
		}
	case reflect.Array:
		sb.WriteString(t.String() + "{")
		for i := 0; i < v.Len(); i++ {
			if i > 0 {
				sb.WriteString(", ")
			}
			show(sb, v.Index(i), depth+1)
		}
		sb.WriteString("}")
	case reflect.Map:
		if v.IsNil() {
			sb.WriteString(t.String() + "(nil)")
			return
		}
		keys := v.MapKeys()
		sort.Slice(keys, func(i, j int) bool { return Canon(keys[i]) < Canon(keys[j]) })
		sb.WriteString(t.String() + "{")
		for i, k := range keys {
			if i > 0 {
				sb.WriteString(", ")
			}
			show(sb, Addressable(k), depth+1)
			sb.WriteString(": ")
			show(sb, Addressable(v.MapIndex(k)), depth+1)
		}
		sb.WriteString("}")
	case reflect.Struct:
		sb.WriteString(t.String() + "{")
		for i := 0; i < v.NumField(); i++ {
			if i > 0 {
				sb.WriteString(", ")
			}
			sb.WriteString(t.Field(i).Name + ": ")
			show(sb, v.Field(i), depth+1)
		}
		sb.WriteString("}")
	case reflect.Interface:
		if v.IsNil() {
			sb.WriteString("nil")
			return
		}
		show(sb, Addressable(v.Elem()), depth+1)
	default:
		fmt.Fprintf(sb, "<%s>", v.Kind())
	}
}
