#!/bin/bash
# Builds the framework offline from files on disk only.
set -eu
cd "$(dirname "$0")"
export PATH=/root/go/pkg/mod/golang.org/toolchain@v0.0.1-go1.24.0.linux-amd64/bin:$PATH
export GOTOOLCHAIN=local GOFLAGS=-mod=mod GOPROXY=off GOWORK=off
mkdir -p bin evidence replays
(cd src && go build -o ../bin/verif ./cmd/verif)
(cd rt && go build ./... )
# warm the build cache for the packages every scenario links
(cd rt && go vet ./... >/dev/null 2>&1 || true)
echo "setup ok"
