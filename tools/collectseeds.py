#!/usr/bin/env python3
"""Collects verified seeded defects into /verif/seeded/<id>/ and writes seeded/README.md.
usage: collectseeds.py [<round label> <dir the sub-agents wrote to> <dir tools/seedverify.sh wrote to>]...
Without arguments only README.md is regenerated from seeded/*/meta.json (the scratch
directories of earlier rounds are gone; /verif/seeded is the only record, so commit it
straight after every collection)."""
import json, os, re, shutil, sys, glob
a = sys.argv[1:]
rounds = [(a[i], a[i + 1], a[i + 2]) for i in range(0, len(a) - 2, 3)]
for rn, sdir, odir in rounds:
    for i in range(1, 21):
        for x in "ab":
            pid = "C%02d" % i
            src = "%s/%s/%s" % (sdir, pid, x)
            out = "%s/%s-%s" % (odir, pid, x)
            res = out + "/result.txt"
            if not (os.path.exists(src + "/patch.diff") and os.path.exists(res)):
                continue
            kv = {}
            keys = []
            for l in open(res):
                l = l.strip()
                if l.startswith("check_key="):
                    keys.append(l[len("check_key="):])
                elif "=" in l:
                    k, v = l.split("=", 1)
                    kv[k] = v
            try:
                meta = json.load(open(src + "/meta.json"))
            except Exception:
                meta = {}
            confirmed = kv.get("applies") in ("yes", "3way") and kv.get("tests_unexpected_failures") == "0" and kv.get("demo_clean_rc") == "0" and kv.get("demo_patched_rc") not in (None, "0")
            caught = kv.get("check_rc") == "1"
            name = "%s-%s%s" % (pid, rn, x)
            dst = "/verif/seeded/" + name
            os.makedirs(dst, exist_ok=True)
            p = out + "/patch_on_head.diff"
            shutil.copy(p if os.path.exists(p) and os.path.getsize(p) > 0 else src + "/patch.diff", dst + "/patch.diff")
            shutil.copy(src + "/demo.sh", dst + "/demo.sh")
            for extra in ("patch.orig.diff", "patch.orig-ae681e0.diff"):
                if os.path.exists(src + "/" + extra):
                    shutil.copy(src + "/" + extra, dst + "/" + extra)
            m = {
                "property": pid,
                "rebased": meta.get("rebased", ""),
                "origin": ("re-created by a sub-agent from the one-line description of the lost round %s change (tools/lost_mechanisms.json), given the property text and a scratch worktree: a regression seed, not independent of the strengthening it is named in" % rn[1]) if meta.get("reconstructed") else ("independent sub-agent, round %s, given only the property text and a scratch worktree" % rn[1]),
                "reconstructed": bool(meta.get("reconstructed")),
                "summary": meta.get("summary", ""),
                "needs_to_manifest": meta.get("needs_to_manifest", ""),
                "files_changed": meta.get("files_changed", []),
                "verified_against_repo_commit": kv.get("head"),
                "what_was_run": "tools/seedverify.sh: scratch worktree of /repo HEAD; git apply patch.diff; go build; go test -vet=off -count=1 ./... (compared with the unpatched result); demo.sh on the patched and on the unpatched worktree; ./run.sh %s quick with VERIF_REPO pointing at the patched worktree" % pid,
                "patch_applies": kv.get("applies"),
                "pinned_tests_unexpected_failures": kv.get("tests_unexpected_failures"),
                "demo_exit_unpatched": kv.get("demo_clean_rc"),
                "demo_exit_patched": kv.get("demo_patched_rc"),
                "confirmed": confirmed,
                "quick_check_exit_on_patched_tree": kv.get("check_rc"),
                "caught_by_check": caught,
                "violation_keys_reported": keys,
            }
            json.dump(m, open(dst + "/meta.json", "w"), indent=1)
rows = []
for mf in sorted(glob.glob("/verif/seeded/*/meta.json")):
    m = json.load(open(mf))
    name = os.path.basename(os.path.dirname(mf))
    rows.append((name, m.get("property"), bool(m.get("confirmed")), bool(m.get("caught_by_check")),
                 (m.get("summary", "") or "")[:150].replace("|", "/").replace("\n", " "), (m.get("violation_keys_reported") or [])[:1]))
with open("/verif/seeded/README.md", "w") as f:
    f.write("# Seeded defects\n\nChanges to awalterschulze/goderive written by independent sub-agents that saw only one property's text (never /verif), each verified by `tools/seedverify.sh` in a scratch worktree of /repo's HEAD: the patch applies, the generator builds, the pinned test suite gives the same result as without it, the agent's demonstration fails with the change and passes without it. `caught` = the property's quick check, pointed at the patched tree, exits 1 with a VIOLATION line.\n\n")
    f.write("| seed | property | confirmed | caught by its check | change | first violation key |\n|---|---|---|---|---|---|\n")
    for r in sorted(rows):
        f.write("| %s | %s | %s | %s | %s | %s |\n" % (r[0], r[1], "yes" if r[2] else "no", "yes" if r[3] else "NO", r[4], ("`%s`" % r[5][0][:90]) if r[5] else ""))
    n = len(rows); c = sum(1 for r in rows if r[2]); k = sum(1 for r in rows if r[2] and r[3])
    f.write("\n%d seeds collected, %d confirmed, %d of the confirmed ones caught by the check of their property.\n" % (n, c, k))
print(len(rows), "seeds")
