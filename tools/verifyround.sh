#!/bin/bash
# usage: tools/verifyround.sh <seeds dir> <out dir> [parallelism]   -- seedverify.sh for every <seeds dir>/<PID>/<a|b> not verified yet
sd="$1"; od="$2"; par="${3:-2}"
mkdir -p "$od"
for d in "$sd"/C*/[ab]; do
  [ -f "$d/patch.diff" ] && [ -f "$d/demo.sh" ] && [ -f "$d/meta.json" ] || continue
  pid=$(basename "$(dirname "$d")"); x=$(basename "$d")
  [ -f "$od/$pid-$x/result.txt" ] && grep -q check_rc "$od/$pid-$x/result.txt" && continue
  echo "$d $pid $od/$pid-$x"
done | xargs -P "$par" -L 1 bash -c '/verif/tools/seedverify.sh "$0" "$1" "$2" > /dev/null 2>&1; echo "$1 $2: $(grep -E "check_rc|demo_patched_rc|demo_clean_rc|tests_unexp|applies" "$2/result.txt" | tr "\n" " ")"'
