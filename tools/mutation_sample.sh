#!/bin/bash
# a sample of the mechanical mutants (tools/mutants.py), cheapest checks first; results in /verif/mutation/*.jsonl
cd "$(dirname "$0")/.."
run() { nice -n 5 python3 tools/mutants.py run "$1" "$2" --every "$3" --offset "${4:-0}" --nodrop; }
run plugin/min/min.go C13 3
run plugin/max/max.go C13 3 1
run plugin/sort/sort.go C13 2
run plugin/keys/keys.go C13 2
run plugin/traverse/traverse.go C16 4
run plugin/toerror/toerror.go C16 4
run plugin/contains/contains.go C14 5
run plugin/unique/unique.go C14 4
run plugin/set/set.go C14 3
run plugin/union/union.go C14 5
run plugin/intersect/intersect.go C14 5
run plugin/filter/filter.go C14 5
run plugin/takewhile/takewhile.go C14 5
run plugin/all/all.go C14 6
run plugin/any/any.go C14 6 1
run plugin/do/do.go C20 5
run plugin/compose/compose.go C16 10
run plugin/mem/mem.go C18 14
run plugin/equal/equal.go C02 24
run plugin/deepcopy/deepcopy.go C05 17
run plugin/compare/compare.go C03 28
run plugin/fmap/fmap.go C17 14
run plugin/join/join.go C17 20
run plugin/hash/hash.go C04 20
run plugin/gostring/gostring.go C06 24
