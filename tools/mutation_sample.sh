#!/bin/bash
# a sample of the mechanical mutants of the generated-code templates (tools/mutants.py --ponly),
# cheapest checks first; results in /verif/mutation/*.jsonl
cd "$(dirname "$0")/.."
run() { nice -n 10 python3 tools/mutants.py run "$1" "$2" --every "$3" --offset "${4:-0}" --nodrop --ponly; }
run plugin/min/min.go C13 1
run plugin/max/max.go C13 1
run plugin/sort/sort.go C13 1
run plugin/keys/keys.go C13 1
run plugin/traverse/traverse.go C16 1
run plugin/compose/compose.go C16 1
run plugin/contains/contains.go C14 1
run plugin/unique/unique.go C14 1
run plugin/set/set.go C14 1
run plugin/union/union.go C14 1
run plugin/intersect/intersect.go C14 1
run plugin/filter/filter.go C14 1
run plugin/takewhile/takewhile.go C14 1
run plugin/all/all.go C14 1
run plugin/any/any.go C14 1
run plugin/do/do.go C20 1
run plugin/fmap/fmap.go C17 1
run plugin/join/join.go C17 1
run plugin/mem/mem.go C18 3
run plugin/equal/equal.go C02 8
run plugin/deepcopy/deepcopy.go C05 4
run plugin/compare/compare.go C03 12
run plugin/hash/hash.go C04 3
run plugin/gostring/gostring.go C06 10
