#!/usr/bin/env python3
"""Mechanical mutation analysis of the generator against the registered checks.

  mutants.py list <relfile>                       print the mutants of one generator file
  mutants.py run <relfile> <P1,P2,..> [--every K] [--offset O] [--max N] [--tier quick]
       for every K-th mutant: copy /repo (no .git) to a scratch dir, apply the mutant, build;
       run the quick checks P1, P2, .. in turn against the copy (VERIF_REPO, VERIF_OUT in scratch)
       until one exits 1 (killed).  Results are appended to /verif/mutation/<file>.jsonl.

This is not a check and decides no property; it measures which single-token changes of the
generator the checks notice, to find holes in their alphabets.  Survivors are triaged by hand
(equivalent mutant / outside every property / a hole)."""
import json, os, re, shutil, subprocess, sys, tempfile, time

REPO = os.environ.get("MUT_REPO", "/repo")
ENV = dict(os.environ)
ENV["PATH"] = "/root/go/pkg/mod/golang.org/toolchain@v0.0.1-go1.24.0.linux-amd64/bin:" + ENV["PATH"]
ENV.update(GOTOOLCHAIN="local", GOFLAGS="-mod=mod", GOPROXY="off", GOWORK="off")

REL = [(r" == ", " != "), (r" != ", " == "), (r" <= ", " < "), (r" >= ", " > "), (r" < ", " <= "), (r" > ", " >= "),
       (r" && ", " || "), (r" \|\| ", " && ")]
OTHER = [(r"return err\b", "return nil"), (r"return true\b", "return false"), (r"return false\b", "return true"),
         (r"\bbreak\b", "continue"), (r"\bcontinue\b", "break"), (r"\[0\]", "[1]"), (r"\[1\]", "[0]"),
         (r" \+ 1\b", ""), (r" - 1\b", ""), (r"\+1\b", ""), (r"-1\b", ""), (r"\bi\+\+", "i += 2"),
         (r"return 0\b", "return 1"), (r"return 1\b", "return -1"), (r"return -1\b", "return 1"),
         (r"\blen\(", "cap("), (r"\bthis\b", "that"), (r"\bthat\b", "this"), (r"\bsrc\b", "dst"),
         (r"= nil\b", "= nil /*mut*/")]


def mutants(path):
    lines = open(path).read().split("\n")
    out = []
    depth = 0
    in_import = False
    for n, l in enumerate(lines):
        s = l.strip()
        if s.startswith("import ("):
            in_import = True
        if in_import:
            if s == ")":
                in_import = False
            continue
        if s.startswith("//") or s.startswith("import ") or s.startswith("package "):
            continue
        top = not l.startswith(("\t", " "))
        if "Errorf(" in l or "errors.New(" in l or "panic(" in l:
            continue
        if top and not s.startswith("}"):
            # declarations at top level (func headers, vars): only mutate inside bodies
            continue
        code = l.split(" //")[0] if ' //' in l and '"' not in l.split(" //")[1] else l
        for pat, rep in REL + OTHER:
            if rep.endswith("/*mut*/"):
                continue
            for k, m in enumerate(re.finditer(pat, code)):
                new = code[:m.start()] + m.expand(rep) + code[m.end():]
                if new != l:
                    out.append({"line": n + 1, "op": "%s->%s#%d" % (pat.strip(), rep.strip(), k), "old": l, "new": new})
        # condition forced
        m = re.match(r"^(\s*)(if|} else if) (.*) \{$", code)
        if m and not m.group(3).startswith(("false", "true")):
            cond = m.group(3)
            if ";" in cond:
                pre, c2 = cond.rsplit(";", 1)
                out.append({"line": n + 1, "op": "if-false", "old": l, "new": "%s%s %s; false && (%s) {" % (m.group(1), m.group(2), pre, c2.strip())})
                out.append({"line": n + 1, "op": "if-true", "old": l, "new": "%s%s %s; true || (%s) {" % (m.group(1), m.group(2), pre, c2.strip())})
            else:
                out.append({"line": n + 1, "op": "if-false", "old": l, "new": "%s%s false && (%s) {" % (m.group(1), m.group(2), cond)})
                out.append({"line": n + 1, "op": "if-true", "old": l, "new": "%s%s true || (%s) {" % (m.group(1), m.group(2), cond)})
        # dropped statement: a complete single-line call statement
        if re.match(r"^\s*(p|g|this)\.(P|In|Out)\(.*\)$", code) or re.match(r"^\s*[A-Za-z_.]+\((.*)\)$", code) and not s.startswith(("return", "func", "go ", "defer")):
            out.append({"line": n + 1, "op": "drop-stmt", "old": l, "new": re.match(r"^\s*", l).group(0) + "_ = 0 // dropped"})
        # case list shortened
        m = re.match(r"^(\s*case )(.*), ([^,]+):$", code)
        if m:
            out.append({"line": n + 1, "op": "case-drop-last", "old": l, "new": m.group(1) + m.group(2) + ":"})
    for i, mu in enumerate(out):
        mu["id"] = i
    return out


def sh(cmd, cwd=None, env=None, timeout=3600):
    try:
        p = subprocess.run(cmd, shell=True, cwd=cwd, env=env or ENV, stdout=subprocess.PIPE, stderr=subprocess.STDOUT, timeout=timeout)
        return p.returncode, p.stdout.decode("utf8", "replace")
    except subprocess.TimeoutExpired:
        return 124, "timeout"


def main():
    if sys.argv[1] == "list":
        for mu in mutants(os.path.join(REPO, sys.argv[2])):
            print(mu["id"], mu["line"], mu["op"], "|", mu["new"].strip()[:110])
        return
    rel, props = sys.argv[2], sys.argv[3].split(",")
    every, offset, mx, tier = 1, 0, 10 ** 9, "quick"
    ponly = "--ponly" in sys.argv
    if ponly:
        sys.argv.remove("--ponly")
    nodrop = "--nodrop" in sys.argv
    if nodrop:
        sys.argv.remove("--nodrop")
    a = sys.argv[4:]
    for i in range(0, len(a), 2):
        if a[i] == "--every": every = int(a[i + 1])
        if a[i] == "--offset": offset = int(a[i + 1])
        if a[i] == "--max": mx = int(a[i + 1])
        if a[i] == "--tier": tier = a[i + 1]
    ms = [m for m in mutants(os.path.join(REPO, rel)) if not (nodrop and m["op"] == "drop-stmt")]
    if ponly:
        # only mutants of the templates of generated code (lines printed with p.P)
        ms = [m for m in ms if ".P(" in m["old"]]
    for i, m in enumerate(ms):
        m["id"] = i
    os.makedirs("/verif/mutation", exist_ok=True)
    logf = "/verif/mutation/" + rel.replace("/", "_") + ".jsonl"
    done = set()
    if os.path.exists(logf):
        for l in open(logf):
            try:
                done.add(json.loads(l)["id"])
            except Exception:
                pass
    head = subprocess.check_output(["git", "-C", REPO, "log", "--format=%h", "-1"]).decode().strip()
    count = 0
    for mu in ms:
        if mu["id"] % every != offset or mu["id"] in done:
            continue
        if count >= mx:
            break
        count += 1
        d = tempfile.mkdtemp(prefix="mut.", dir="/tmp")
        try:
            sh("rsync -a --exclude .git %s/ %s/r/" % (REPO, d))
            p = os.path.join(d, "r", rel)
            lines = open(p).read().split("\n")
            assert lines[mu["line"] - 1] == mu["old"]
            lines[mu["line"] - 1] = mu["new"]
            open(p, "w").write("\n".join(lines))
            rc, out = sh("go build -o /dev/null . && go vet ./%s" % os.path.dirname(rel), cwd=os.path.join(d, "r"))
            res = dict(mu, repo_head=head, file=rel)
            if rc != 0:
                res["status"] = "does-not-build"
            else:
                res["status"] = "survived"
                res["checks"] = {}
                for pr in props:
                    e = dict(ENV, VERIF_REPO=os.path.join(d, "r"), VERIF_OUT=os.path.join(d, "out"))
                    t0 = time.time()
                    rc, out = sh("./run.sh %s %s" % (pr, tier), cwd="/verif", env=e, timeout=2400)
                    keys = [l.strip()[4:] for l in out.split("\n") if l.startswith("  key=")][:3]
                    res["checks"][pr] = {"rc": rc, "keys": keys, "s": round(time.time() - t0, 1)}
                    if rc == 1:
                        res["status"] = "killed"
                        res["killed_by"] = pr
                        break
                    if rc != 0:
                        res["status"] = "check-error"
                        res["killed_by"] = pr
                        res["tail"] = out[-600:]
                        break
            with open(logf, "a") as f:
                f.write(json.dumps(res) + "\n")
            print(mu["id"], mu["line"], mu["op"], res["status"], res.get("killed_by", ""), flush=True)
        finally:
            shutil.rmtree(d, ignore_errors=True)


main()
