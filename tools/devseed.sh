#!/bin/bash
# usage: tools/devseed.sh <patch.diff> <prop> [tier]  -- run this tree's check against a scratch worktree of /repo HEAD with the patch applied
set -u
patch="$1"; prop="$2"; tier="${3:-quick}"
here="$(cd "$(dirname "$0")/.." && pwd)"
wt=$(mktemp -d /tmp/ds.XXXXXX); rmdir "$wt"
git -C /repo worktree add -q --detach "$wt" HEAD || exit 2
trap 'git -C /repo worktree remove --force "$wt" 2>/dev/null; rm -rf "$wt" "$wt.out"' EXIT
git -C "$wt" apply "$patch" 2>/dev/null || git -C "$wt" apply -3 "$patch" || { echo "patch does not apply"; exit 2; }
cd "$here" && VERIF_OUT="$wt.out" VERIF_REPO="$wt" ./run.sh "$prop" "$tier" 2>&1 | grep -v '^  \[' | grep -E "^(VIOLATION|OK|FAIL|  key=|verif:|INCONCLUSIVE)" | cut -c1-240 | awk -v n=${SEED_LINES:-10} 'NR<=n'
echo "exit=${PIPESTATUS[0]}"
