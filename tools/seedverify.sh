#!/bin/bash
# usage: tools/seedverify.sh <seed dir containing patch.diff demo.sh meta.json> <prop> <outdir>
# Verifies a seeded defect in scratch worktrees of /repo's HEAD (never touches /repo's working tree):
#  - patch applies, generator builds, pinned test suite result unchanged
#  - demo.sh fails on the patched tree and passes on the unpatched tree
#  - runs the quick check of <prop> against the patched tree (VERIF_REPO)
set -u
seed="$1"; prop="$2"; out="$3"
export PATH=/root/go/pkg/mod/golang.org/toolchain@v0.0.1-go1.24.0.linux-amd64/bin:$PATH GOTOOLCHAIN=local GOFLAGS=-mod=mod GOPROXY=off
mkdir -p "$out"
wt=$(mktemp -d /tmp/sv.XXXXXX); rmdir "$wt"
git -C /repo worktree add -q --detach "$wt" HEAD || exit 2
cleanup() { git -C /repo worktree remove --force "$wt" 2>/dev/null; rm -rf "$wt"; }
trap cleanup EXIT
res="$out/result.txt"; : > "$res"
echo "head=$(git -C /repo log --format=%h -1)" >> "$res"
# unpatched demo
bash "$seed/demo.sh" "$wt" > "$out/demo_clean.log" 2>&1; echo "demo_clean_rc=$?" >> "$res"
if git -C "$wt" apply "$seed/patch.diff" 2>"$out/apply.log"; then echo "applies=yes" >> "$res"
elif git -C "$wt" apply -3 "$seed/patch.diff" 2>>"$out/apply.log"; then echo "applies=3way" >> "$res"
else echo "applies=no" >> "$res"; exit 0; fi
git -C "$wt" diff > "$out/patch_on_head.diff"
(cd "$wt" && go build -o /dev/null . ) > "$out/build.log" 2>&1; echo "build_rc=$?" >> "$res"
(cd "$wt" && go test -vet=off -count=1 ./... 2>&1 | grep -E "^(ok|FAIL|---|panic)" ) > "$out/tests.log" 2>&1
bad=$(grep "^FAIL" "$out/tests.log" | grep -v "gopath2" | grep -v "^FAIL$" | wc -l)
if [ "$bad" != "0" ]; then
  # test/normal has randomised tests (TestGoString) that fail now and then on the unmodified tree too: run it again
  rm -f "$wt/test/normal/gostring_gen_test.go"
  (cd "$wt" && go test -vet=off -count=1 ./... 2>&1 | grep -E "^(ok|FAIL|---|panic)" ) > "$out/tests_retry.log" 2>&1
  bad=$(grep "^FAIL" "$out/tests_retry.log" | grep -v "gopath2" | grep -v "^FAIL$" | wc -l)
  echo "tests_retried=yes" >> "$res"
fi
echo "tests_unexpected_failures=$bad" >> "$res"
bash "$seed/demo.sh" "$wt" > "$out/demo_patched.log" 2>&1; echo "demo_patched_rc=$?" >> "$res"
(cd /verif && VERIF_OUT="$out/verifout" VERIF_REPO="$wt" ./run.sh "$prop" quick) > "$out/check.log" 2>&1; echo "check_rc=$?" >> "$res"
grep -E "^  key=" "$out/check.log" | sort -u | head -8 | sed 's/^  key=/check_key=/' >> "$res"
cat "$res"
