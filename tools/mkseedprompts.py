#!/usr/bin/env python3
"""Prepare one round of seed-writing sub-agents: a scratch worktree of /repo's
HEAD and a prompt file per property.  usage: mkseedprompts.py <round-number> <earlier seed dirs...>
The prompt holds the property's text only (nothing from /verif) plus the
mechanisms earlier rounds already used, so that the new changes differ."""
import json, os, subprocess, sys, glob

rnd = sys.argv[1]
earlier = sys.argv[2:]
seeds, wt = f"/tmp/seeds{rnd}", f"/tmp/wt{rnd}"
props = [json.loads(l) for l in open("/verif/properties.jsonl")]
tmpl = open("/verif/tools/seedprompt.tmpl").read()
# one-line descriptions of the round 3-5 changes whose files were lost with /tmp
lost = json.load(open("/verif/tools/lost_mechanisms.json"))
for p in props:
    pid = p["id"]
    os.makedirs(f"{seeds}/{pid}", exist_ok=True)
    if not os.path.isdir(f"{wt}/{pid}"):
        os.makedirs(wt, exist_ok=True)
        subprocess.check_call(["git", "-C", "/repo", "worktree", "add", "--detach", f"{wt}/{pid}", "HEAD"], stdout=subprocess.DEVNULL, stderr=subprocess.DEVNULL)
    prev = []
    for d in earlier:
        for m in sorted(glob.glob(f"{d}/{pid}*/meta.json") + glob.glob(f"{d}/{pid}/*/meta.json")):
            try:
                j = json.load(open(m))
            except Exception:
                continue
            s = str(j.get("summary", ""))[:330]
            n = str(j.get("needs_to_manifest", j.get("needs", "")))[:250]
            prev.append(f" - {s}  [needs: {n}]")
    for cell in lost.get(pid, []):
        prev.append(f" - {cell}")
    text = (tmpl.replace("@PID@", pid).replace("@RND@", rnd).replace("@TITLE@", p["title"])
            .replace("@STATEMENT@", p["statement"]).replace("@QUANT@", p["quantifier"]["text"])
            .replace("@EARLIER@", "\n".join(prev) if prev else " (none)"))
    open(f"{seeds}/{pid}/prompt.txt", "w").write(text)
print("prepared", len(props), "prompts under", seeds)
