#!/usr/bin/env python3
"""Prompts for re-creating the round 3-5 seeded changes whose files were lost with /tmp
(only their one-line descriptions in DESIGN.md / tools/lost_mechanisms.json survive).
One sub-agent per property; output under /tmp/seedsR<round>/<PID>/<a|b>/, worktree /tmp/wtR/<PID>.
Such seeds are marked "reconstructed": true in meta.json - they are not independent of /verif's
strengthenings (the description names the mechanism) and serve as a regression set only."""
import json, re, os, subprocess
tmpl = open('/verif/tools/seedprompt.tmpl').read()
i = tmpl.index('IMPORTANT: earlier rounds'); j = tmpl.index('Procedure:')
head, tail = tmpl[:i], tmpl[j:]
mid = open('/verif/tools/seedprompt_recon.mid').read()
lost = json.load(open('/verif/tools/lost_mechanisms.json'))
props = {json.loads(l)['id']: json.loads(l) for l in open('/verif/properties.jsonl')}
for pid, cells in lost.items():
    items, dirs = [], []
    for cell in cells:
        for (p, r, x) in re.findall(r'(C\d\d)-r([345])([ab])', cell):
            if p != pid: continue
            desc = re.sub(r'^(C\d\d-r\d[ab],?\s*)+', '', cell)
            items.append(f" - r{r}{x}: {desc}")
            dirs.append(f"  r{r}{x} -> /tmp/seedsR{r}/{pid}/{x}/")
    wt = f"/tmp/wtR/{pid}"
    if not os.path.isdir(wt):
        os.makedirs('/tmp/wtR', exist_ok=True)
        subprocess.check_call(['git', '-C', '/repo', 'worktree', 'add', '--detach', wt, 'HEAD'], stdout=subprocess.DEVNULL, stderr=subprocess.DEVNULL)
    p = props[pid]
    t = head + mid.replace('@LIST@', '\n'.join(items)).replace('@DIRS@', '\n'.join(dirs)) + tail
    t = (t.replace('/tmp/wt@RND@/@PID@', wt).replace('/tmp/seeds@RND@/@PID@', '/tmp/seedsR3|4|5/' + pid).replace('@PID@', pid)
         .replace('@TITLE@', p['title']).replace('@STATEMENT@', p['statement']).replace('@QUANT@', p['quantifier']['text']))
    t = t.replace('Repeat for B.', 'Repeat for each change.')
    os.makedirs(f'/tmp/seedsR/{pid}', exist_ok=True)
    open(f'/tmp/seedsR/{pid}/prompt.txt', 'w').write(t)
