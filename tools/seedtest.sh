#!/bin/bash
# usage: tools/seedtest.sh <patch.diff> <prop> [tier]  -- applies the patch to /repo, runs the check, restores /repo
set -u
patch="$1"; prop="$2"; tier="${3:-quick}"
cd /repo || exit 2
if [ -n "$(git status --porcelain)" ]; then echo "/repo not clean" >&2; exit 2; fi
git apply "$patch" || { echo "patch does not apply" >&2; exit 2; }
out=$(mktemp -d /tmp/seedtest.XXXXXX)
cd /verif && VERIF_OUT="$out" ./run.sh "$prop" "$tier" 2>&1 | grep -v '^  \[' | grep -E "^(VIOLATION|OK|FAIL|  key=|verif:)" | cut -c1-220 | awk -v n=${SEED_LINES:-12} 'NR<=n'
rc=${PIPESTATUS[0]}
rm -rf "$out"; git -C /repo checkout -- . ; git -C /repo status --porcelain
echo "exit=$rc"
