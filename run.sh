#!/bin/bash
# usage: ./run.sh <property-id> quick|thorough   |   ./run.sh replay <path>
set -u
cd "$(dirname "$0")"
export VERIF_DIR="$(pwd)"
export PATH=/root/go/pkg/mod/golang.org/toolchain@v0.0.1-go1.24.0.linux-amd64/bin:$PATH
export GOTOOLCHAIN=local GOFLAGS=-mod=mod GOPROXY=off GOWORK=off
if [ ! -x bin/verif ] || [ -n "$(find src rt -newer bin/verif -name '*.go' -print -quit 2>/dev/null)" ]; then
  ./setup.sh >/dev/null || { echo "setup failed" >&2; exit 2; }
fi
if [ "$1" = "replay" ]; then exec bin/verif replay "$2"; fi
exec bin/verif check "$1" "${2:-quick}"
